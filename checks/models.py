"""Model configurations (serial tags x rated power x refused blocks) and the inverter factory on the simulated
inverter of fakeinv.py.  Everything is derived from the live goodwe.model tuples and inverter classes."""
from __future__ import annotations

import itertools

from .fakeinv import FakeInverter, drive, const_crc

ET_BLOCKS = {"battery": (0x9088, None), "battery2": (0x9858, None), "meter_ext2": (0x8ca0, 0x7d),
             "meter_ext": (0x8ca0, 0x3a), "mppt": (0x89e5, None), "eco_v2": (47547, 6), "peak_shaving": (47589, 6)}
DT_BLOCKS = {"dt_meter": (0x75f3, None), "dt_meter_info": (0x756f, None)}
POWERS = (3000, 10000, 15000, 25000, 30000)


def _serial(prefix, tag):
    s = ("9" + prefix + tag + "218W0001")
    return (s + "0000000000000000")[:16]


def predicates(M, serial):
    class _I:
        serial_number = serial
    md = M.model
    return tuple(bool(f(_I)) for f in (md.is_single_phase, md.is_3_mppt, md.is_4_mppt, md.is_2_battery,
                                       md.is_745_platform, md.is_753_platform))


def et_serials(M, all_tags):
    """Representative serial numbers: one per class of the model predicates (or one per tag/prefix if all_tags)."""
    out, seen = [], set()
    tags = list(M.model.ET_MODEL_TAGS) + ["XXX"]
    for tag in tags:
        for prefix in ("010K", "025K", "29K9"):
            s = _serial(prefix, tag)
            key = predicates(M, s)
            if all_tags:
                key = (tag, prefix if predicates(M, _serial("010K", tag)) != key else "")
            if key not in seen:
                seen.add(key)
                out.append(s)
    return out


def dt_serials(M, all_tags):
    out, seen = [], set()
    for tag in list(M.model.DT_MODEL_TAGS) + ["XXX"]:
        s = _serial("010K", tag)
        key = tag if all_tags else predicates(M, s)
        if key not in seen:
            seen.add(key)
            out.append(s)
    return out


def et_info_bytes(serial, rated_power, model="GW10K-ET", arm_version=19):
    b = bytearray(66)
    b[0:2] = (1).to_bytes(2, "big")
    b[2:4] = rated_power.to_bytes(2, "big")
    b[4:6] = (1).to_bytes(2, "big")
    b[6:22] = serial.encode("ascii")
    b[22:32] = model.encode("ascii").ljust(10)
    b[32:34] = (6).to_bytes(2, "big")
    b[34:36] = (6).to_bytes(2, "big")
    b[36:38] = (152).to_bytes(2, "big")
    b[38:40] = arm_version.to_bytes(2, "big")
    b[40:42] = (192).to_bytes(2, "big")
    b[42:54] = b"04029-06-S11"
    b[54:66] = b"02041-17-S00"
    return bytes(b)


def dt_info_bytes(serial, model="GW6000-DT"):
    b = bytearray(80)
    b[6:22] = serial.encode("ascii")
    b[22:32] = model.encode("ascii").ljust(10)
    b[66:68] = (15).to_bytes(2, "big")
    b[68:70] = (15).to_bytes(2, "big")
    b[70:72] = (16).to_bytes(2, "big")
    return bytes(b)


def es_info_bytes(serial="95048ESU218W0001", firmware="2323G", model="GW5048D-ES"):
    b = bytearray(b" " * 64)
    b[0:5] = firmware.encode("ascii").ljust(5)
    b[5:15] = model.encode("ascii").ljust(10)
    b[31:47] = serial.encode("ascii")
    b[51:63] = b"02041-16-S00"
    return bytes(b)


def refuse_fn(names, blocks):
    """refuse(addr, count) for a set of refused block names (concrete)."""
    pairs = [blocks[n] for n in names]

    def refuse(addr, count):
        return any(addr == a and (c is None or c == count) for a, c in pairs)
    return refuse


def make(M, cfg, default=None, refuse=None, crc=None, transport="udp"):
    """Create the real inverter object of cfg['family'] on a simulated inverter and run read_device_info().
    Returns (inv, fake)."""
    fam = cfg["family"]
    port = 8899 if transport == "udp" else 502
    cls = {"ET": M.et.ET, "DT": M.dt.DT, "ES": M.es.ES}[fam]
    inv = cls("127.0.0.1", port, 0, 1, 0)
    blocks = ET_BLOCKS if fam == "ET" else DT_BLOCKS
    fake = FakeInverter(M, inv, default=default or (lambda a: 0),
                        refuse=refuse or refuse_fn(cfg.get("refuse", ()), blocks), crc=crc)
    if fam == "ET":
        fake.write_bytes(0x88b8, et_info_bytes(cfg["serial"], cfg.get("rated_power", 10000)))
    elif fam == "DT":
        fake.write_bytes(0x7531, dt_info_bytes(cfg["serial"]))
    else:
        fake.es_info = es_info_bytes(cfg.get("serial", "95048ESU218W0001"), cfg.get("firmware", "2323G"))
        fake.es_runtime = bytes(cfg.get("runtime_len", 142))
        fake.es_settings = list(bytes(cfg.get("settings_len", 86)))
    drive(inv.read_device_info())
    return inv, fake


def discover_blocks(M, cfg, crc=None):
    """[(command, sensors)] as passed to _map_response by read_runtime_data() for this configuration, collected
    over up to 4 consecutive polls (every poll that returns contributes, so transient states after a capability
    fallback or after a failed request are included), plus the inverter.
    cfg['fail_at'] = k makes the k-th read request after read_device_info() fail once (no response)."""
    inv, fake = make(M, cfg, default=lambda a: 1 if cfg.get("battery", True) else 0, crc=crc)
    counter = [0]
    fail_at = cfg.get("fail_at")

    def silent(op):
        counter[0] += 1
        return fail_at is not None and counter[0] - 1 == fail_at
    fake.silent = silent
    rec, cur_call = [], []
    orig = type(inv)._map_response

    def spy(response, sensors):
        cur_call.append((response.command, tuple(sensors)))
        return orig(response, sensors)
    inv._map_response = spy
    seen = set()
    for _ in range(4):
        cur_call.clear()
        try:
            drive(inv.read_runtime_data())
        except (M.exceptions.RequestRejectedException, M.exceptions.RequestFailedException):
            continue
        for cmd, sensors in cur_call:
            k = (type(cmd).__name__, cmd.first_address, cmd.value, tuple(id(x) for x in sensors))
            if k not in seen:
                seen.add(k)
                rec.append((cmd, sensors))
    del inv._map_response
    return inv, fake, rec


def et_configs(M, tier):
    """Configurations used for table discovery (sensor level checks): serial classes x power x refusal sets."""
    cfgs = []
    serials = et_serials(M, all_tags=(tier == "thorough"))
    refusals = [(), ("meter_ext2",), ("meter_ext2", "meter_ext"), ("battery2",), ("mppt",), ("battery",)]
    for s in serials:
        for p in POWERS:
            for r in refusals:
                cfgs.append({"family": "ET", "serial": s, "rated_power": p, "refuse": list(r)})
    return cfgs


def et_fault_configs(M, tier):
    """Configurations with one lost request at every position of the first poll (fault enumeration for C14/C15)."""
    cfgs = []
    serials = et_serials(M, all_tags=False)
    for s in serials:
        for p in ((15000, 25000) if tier == "quick" else POWERS):
            for r in (("meter_ext2",), ("meter_ext2", "meter_ext"), ("battery2",), ()):
                for k in range(0, 8):
                    cfgs.append({"family": "ET", "serial": s, "rated_power": p, "refuse": list(r), "fail_at": k})
    return cfgs


def dt_fault_configs(M, tier):
    """DT configurations with one lost request at every position of the first poll."""
    return [{"family": "DT", "serial": s, "refuse": list(r), "fail_at": k} for s in dt_serials(M, tier == "thorough")
            for r in ((), ("dt_meter",)) for k in range(0, 4)]


def dt_configs(M, tier):
    return [{"family": "DT", "serial": s, "refuse": list(r)} for s in dt_serials(M, tier == "thorough")
            for r in ((), ("dt_meter",))]
