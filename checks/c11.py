"""C11 — decoding is total: every sensor is reported, undecodable values become None."""
from __future__ import annotations

import z3

from symx.core import Explorer, sym_int, SInt
from symx.sbytes import SBytes
from vf.common import Harness, shimmed, real, explore
from . import models, sensors as S
from .fakeinv import const_crc, drive

PROP = "C11"


def _stub_bitmap(G):
    """decode_bitmap loops over 32 bits (2^32 paths): cut here, explored by C13 in bit windows."""
    G.sensor.decode_bitmap = lambda value, bitmap: "<bitmap>"


def _unstub(G):
    pass


# ---------------------------------------------------------------------------------------------------------------
# kernels: decode_day_of_week / decode_months / detect_schedule_type over their whole input range
# ---------------------------------------------------------------------------------------------------------------
class KernelHarness(Harness):
    def __init__(self, fn, lo, hi, low_byte=None):
        self.fn, self.lo, self.hi, self.low_byte = fn, lo, hi, low_byte
        self.name = "kernel"
        self.params = {"fn": fn, "lo": lo, "hi": hi, "low_byte": low_byte}

    def _call(self, M, x):
        if self.fn == "detect_schedule_type":
            return M.sensor.ScheduleType.detect_schedule_type(x)
        return getattr(M.sensor, self.fn)(x)

    def symbolic(self, ex):
        G = shimmed()
        x = sym_int("x", self.lo, self.hi)
        if self.low_byte is not None:
            ex.assume(z3.Or([x.e % 256 == b for b in self.low_byte]))
        try:
            self._call(G, x)
            return "value"
        except ValueError:
            return "ValueError"
        except Exception as e:  # noqa: BLE001
            ex.fail("decoder kernel raised a non-ValueError exception", f"{type(e).__name__}: {e}")

    def concrete(self, inputs):
        R = real()
        x = inputs["x"]
        try:
            self._call(R, x)
            return {"outcome": "value", "violation": None, "observed": f"{self.fn}({x}) ok"}
        except ValueError:
            return {"outcome": "ValueError", "violation": None, "observed": f"{self.fn}({x}) ValueError"}
        except Exception as e:  # noqa: BLE001
            return {"outcome": f"raised {type(e).__name__}", "violation": f"{self.fn}: raised {type(e).__name__}",
                    "observed": f"{self.fn}({x}) -> {type(e).__name__}: {e}"}


# ---------------------------------------------------------------------------------------------------------------
# settings through the public single-value API (read_setting) and the bulk API, on symbolic registers
# ---------------------------------------------------------------------------------------------------------------
SETTING_CFGS = [
    {"family": "ET", "serial": "9010KETU218W0001", "rated_power": 10000, "refuse": []},
    {"family": "ET", "serial": "9010KETU218W0001", "rated_power": 10000, "refuse": ["eco_v2", "peak_shaving"]},
    {"family": "ET", "serial": "9010KETT218W0001", "rated_power": 10000, "refuse": []},
    {"family": "DT", "serial": "9010KDTU218W0001", "refuse": []},
    {"family": "DT", "serial": "9010KDSN218W0001", "refuse": []},
    {"family": "ES", "serial": "95048ESU218W0001", "firmware": "2323G"},
    {"family": "ES", "serial": "95048ESU218W0001", "firmware": "1010B"},
]


def setting_ids(M, cfg):
    inv, _ = models.make(M, cfg)
    return [s.id_ for s in inv.settings()]


def es_setting_window(cfg, sid):
    """Byte positions of the ES settings block that setting `sid` reads (found by running its reader on the shimmed
    copy with the BytesIO read log)."""
    from symx import sbytes as _sb
    G = shimmed()
    G.modbus._modbus_checksum = const_crc
    inv, _ = models.make(G, cfg, crc=const_crc)
    st = inv._settings.get(sid)
    win = set()
    if st is None:
        return win
    _sb.READ_LOG = log = []
    try:
        st.read(G.protocol.ProtocolResponse(bytes(9 + 86), inv._READ_DEVICE_SETTINGS_DATA))
    except Exception:  # noqa: BLE001
        pass
    finally:
        _sb.READ_LOG = None
    for pos, size, _ in log:
        win.update(range(pos, pos + size))
    return win


class SettingHarness(Harness):
    """inv.read_setting(id) with every register of the simulated inverter symbolic."""

    def __init__(self, cfg, sid, stub_kernels=True):
        self.cfg, self.sid = cfg, sid
        self.name = "read_setting"
        self.params = {"cfg": cfg, "id": sid}

    def _run(self, M, default, crc):
        inv, fake = models.make(M, self.cfg, crc=crc)
        info = range(0x88b8, 0x88b8 + 0x21) if self.cfg["family"] == "ET" else range(0x7531, 0x7531 + 0x28)
        fake.regs = {a: v for a, v in fake.regs.items() if a in info}
        fake.default = default
        fake.log.clear()
        fake.raw_log.clear()
        if self.cfg["family"] == "ES":
            # read_settings_data() decodes the whole table in one go: only the bytes this setting reads are made
            # symbolic, the rest is concrete filler (the other settings are explored by their own harness instances)
            if not hasattr(self, "_window"):
                self._window = es_setting_window(self.cfg, self.sid)
            fake.es_settings = [default(("s", i)) if i in self._window else (i * 37 + 11) % 251 for i in range(86)]
        self._st = inv._settings.get(self.sid)
        return drive(inv.read_setting(self.sid))

    def symbolic(self, ex):
        G = shimmed()
        G.modbus._modbus_checksum = const_crc
        _stub_bitmap(G)
        # the bit-string loops are explored exhaustively by the kernel harnesses; here they are total stubs
        real_dow, real_mon = G.orig_sensor_fns
        G.sensor.decode_day_of_week = lambda d: "<days>"
        G.sensor.decode_months = lambda d: "<months>"

        def default(addr):
            name = f"r{addr}" if not isinstance(addr, tuple) else f"s{addr[1]}"
            return sym_int(name, 0, 0xFFFF if not isinstance(addr, tuple) else 0xFF)
        X = G.exceptions
        try:
            v = self._run(G, default, const_crc)
            st = self._st
            if v is not None and st is not None and S.cls_name(st) in ("EcoModeV1", "EcoModeV2", "Schedule", "PeakShavingMode") \
                    and (self.cfg["family"] != "ES" or st.offset > 30000 or S.cls_name(st) == "EcoModeV1"):
                # the other half of totality: a group whose registers cannot be interpreted (hour > 23, power/SoC out of
                # range, unknown on/off byte ...) is reported as ValueError, not as a value
                n = (st.size_ + 1) // 2
                b = []
                for a in range(st.offset, st.offset + n):
                    r = z3.Int(f"r{a}")
                    b += [r / 256, r % 256]
                ref = S.reference(S.cls_name(st), st, b[:st.size_])
                if ref is not None and ref[0] == "group":
                    ex.check(ref[1], "registers that cannot be interpreted are reported as a value")
            return "value" if v is not None else "none"
        except ValueError:
            return "ValueError"
        except X.InverterError:
            return "InverterError"
        except Exception as e:  # noqa: BLE001
            ex.fail("read_setting raised an exception other than ValueError/InverterError", f"{type(e).__name__}: {e}")
        finally:
            G.sensor.decode_day_of_week, G.sensor.decode_months = real_dow, real_mon

    def concrete(self, inputs):
        R = real()

        def default(addr):
            if isinstance(addr, tuple):
                return inputs.get(f"s{addr[1]}", 0)
            return inputs.get(f"r{addr}", 0)
        fam = self.cfg["family"]
        try:
            v = self._run(R, default, None)
            st, viol = self._st, None
            if v is not None and st is not None and S.cls_name(st) in ("EcoModeV1", "EcoModeV2", "Schedule", "PeakShavingMode") \
                    and (fam != "ES" or st.offset > 30000 or S.cls_name(st) == "EcoModeV1"):
                n = (st.size_ + 1) // 2
                b = []
                for a in range(st.offset, st.offset + n):
                    r = inputs.get(f"r{a}", 0)
                    b += [z3.IntVal(r // 256), z3.IntVal(r % 256)]
                ref = S.reference(S.cls_name(st), st, b[:st.size_])
                if ref is not None and ref[0] == "group" and not z3.is_true(z3.simplify(ref[1])):
                    viol = f"{fam}.read_setting({self.sid}): uninterpretable registers reported as a value"
            return {"outcome": "value" if v is not None else "none", "violation": viol, "observed": f"{fam}.read_setting({self.sid}) -> {v!r}"}
        except ValueError as e:
            return {"outcome": "ValueError", "violation": None, "observed": f"ValueError {e}"}
        except R.exceptions.InverterError as e:
            return {"outcome": "InverterError", "violation": None, "observed": repr(e)}
        except Exception as e:  # noqa: BLE001
            return {"outcome": f"raised {type(e).__name__}",
                    "violation": f"{fam}.read_setting({self.sid}): raised {type(e).__name__}",
                    "observed": f"{type(e).__name__}: {e}"}


class BulkHarness(Harness):
    """Full tables through the public bulk calls with concrete filler (all-zero, all-0xFF, seed pattern) — checks
    that the dictionary has every id and nothing escapes; content space is covered by the per-sensor harnesses."""

    def __init__(self, cfg, call, filler):
        self.cfg, self.call, self.filler = cfg, call, filler
        self.name = "bulk"
        self.params = {"cfg": cfg, "call": call, "filler": filler}

    def _default(self, sel):
        if self.filler == "zero":
            return lambda a: 0
        if self.filler == "ff":
            return lambda a: 0xFFFF if not isinstance(a, tuple) else 0xFF
        k = int(self.filler)
        return lambda a: ((a if not isinstance(a, tuple) else a[1]) * 2654435761 + k * 40503) % (65536 if not isinstance(a, tuple) else 256)

    def _run(self, M, crc, sel_val):
        default = self._default(sel_val)
        cfg = dict(self.cfg)
        inv, fake = models.make(M, cfg, default=default, crc=crc)
        fam = cfg["family"]
        if fam == "ES":
            L = cfg.get("runtime_len", 142)
            fake.es_runtime = [default(("s", i)) for i in range(L)]
            fake.es_settings = [default(("s", i)) for i in range(cfg.get("settings_len", 86))]
        if self.call == "runtime":
            res = None
            for _ in range(2):
                try:
                    res = drive(inv.read_runtime_data())
                    break
                except M.exceptions.RequestRejectedException:
                    continue
            want = {s.id_ for s in inv.sensors()}
        else:
            res = drive(inv.read_settings_data())
            want = {s.id_ for s in inv.settings()}
        return res, want

    def symbolic(self, ex):
        G = shimmed()
        G.modbus._modbus_checksum = const_crc
        G.sensor.decode_bitmap, G.sensor.decode_day_of_week, G.sensor.decode_months = G.orig_bitmap, *G.orig_sensor_fns
        try:
            res, want = self._run(G, const_crc, None)
        except Exception as e:  # noqa: BLE001
            ex.fail("bulk read raised", f"{type(e).__name__}: {e}")
        if res is None or set(res.keys()) != want:
            ex.fail("bulk result does not contain every id", str(sorted(want ^ set(res or {}))[:6]))
        return "ok"

    def concrete(self, inputs):
        R = real()
        tag = f"{self.cfg['family']}.{self.call}[{self.filler}]"
        try:
            res, want = self._run(R, None, None)
        except Exception as e:  # noqa: BLE001
            return {"outcome": "raised", "violation": f"{tag}: bulk read raised {type(e).__name__}", "observed": f"{type(e).__name__}: {e}"}
        if res is None or set(res.keys()) != want:
            return {"outcome": "keys", "violation": f"{tag}: ids missing from the bulk result",
                    "observed": str(sorted(want ^ set(res or {}))[:8])}
        return {"outcome": "ok", "violation": None, "observed": f"{len(res)} ids"}


# ---------------------------------------------------------------------------------------------------------------
def tasks(tier, seed):
    R = real()
    ts = []
    cat = [e for e in S.catalog(R, tier)]
    errs = [e for e in cat if "error" in e]
    cat = [e for e in cat if "error" not in e]
    n = 40 if tier == "quick" else 120
    for i in range(n):
        chunk = cat[i::n]
        if chunk:
            ts.append({"name": f"sensors-{i}", "fn": "sensors", "entries": chunk})
    if errs:
        ts.append({"name": "catalog-errors", "fn": "error", "errors": errs[:5]})
    # kernels
    ts.append({"name": "k-dow", "fn": "kernel", "k": [("decode_day_of_week", -128, 127, None)]})
    ts.append({"name": "k-sched", "fn": "kernel", "k": [("detect_schedule_type", -128, 127, None)]})
    if tier == "quick":
        ts.append({"name": "k-months", "fn": "kernel", "k": [("decode_months", -32768, 32767, [0x00, 0xFF])]})
        ts.append({"name": "k-months-lo", "fn": "kernel", "k": [("decode_months", -3, 300, None)]})
    else:
        step = 2048
        for lo in range(0, 32768, step):
            ts.append({"name": f"k-months-{lo}", "fn": "kernel", "k": [("decode_months", lo, lo + step - 1, None)]})
        ts.append({"name": "k-months-neg", "fn": "kernel", "k": [("decode_months", -32768, 0, None)]})
    # settings
    sett = []
    seen_cls = set()
    for cfg in SETTING_CFGS:
        inv, _ = models.make(R, cfg)
        for st in inv.settings():
            big = S.cls_name(st) in ("EcoModeV1", "EcoModeV2", "Schedule", "PeakShavingMode")
            if big and tier == "quick":
                # the eco/schedule groups of one class run the same code at different offsets: one per
                # (family, class, transport of the setting) in the quick tier, all of them in the thorough tier
                k = (cfg["family"], S.cls_name(st), st.offset > 30000)
                if k in seen_cls:
                    continue
                seen_cls.add(k)
            sett.append((cfg, st.id_))
    sett.sort(key=lambda cs: 0 if "eco_mode" in cs[1] or "peak_shaving_mode" == cs[1] else 1)
    m = 24 if tier == "quick" else 48
    for i in range(m):
        chunk = sett[i::m]
        if chunk:
            ts.append({"name": f"settings-{i}", "fn": "settings", "items": chunk})
    # bulk calls
    bulk = []
    fillers = ["zero", "ff", str(seed), str(seed + 1)] + ([str(seed + k) for k in range(2, 10)] if tier == "thorough" else [])
    cfgs = [dict(c) for c in SETTING_CFGS] + [
        {"family": "ET", "serial": "9025KETT218W0001", "rated_power": 25000, "refuse": []},
        {"family": "ET", "serial": "9025KETT218W0001", "rated_power": 25000, "refuse": ["meter_ext2"]},
        {"family": "ET", "serial": "9006KEHU218W0001", "rated_power": 6000, "refuse": ["eco_v2", "peak_shaving"]},
    ]
    for cfg in cfgs:
        for f in fillers:
            bulk.append((cfg, "runtime", f))
            if cfg["family"] in ("ET", "ES"):
                bulk.append((cfg, "settings", f))
    for L in ([0, 1, 17, 54, 80, 93, 142] if tier == "quick" else list(range(0, 150))):
        for f in ("zero", "ff", str(seed)):
            bulk.append(({"family": "ES", "runtime_len": L, "settings_len": max(0, min(86, L))}, "runtime", f))
            bulk.append(({"family": "ES", "runtime_len": L, "settings_len": max(0, min(86, L))}, "settings", f))
    for i in range(8):
        chunk = bulk[i::8]
        if chunk:
            ts.append({"name": f"bulk-{i}", "fn": "bulk", "items": chunk})
    return ts


def run_task(task):
    G = shimmed()
    if not hasattr(G, "orig_sensor_fns"):
        G.orig_sensor_fns = (G.sensor.decode_day_of_week, G.sensor.decode_months)
        G.orig_bitmap = G.sensor.decode_bitmap
    fn = task["fn"]
    out = []
    if fn == "error":
        raise RuntimeError(f"catalog discovery failed: {task['errors']}")
    if fn == "sensors":
        _stub_bitmap(G)
        G.sensor.decode_day_of_week, G.sensor.decode_months = G.orig_sensor_fns
        for ent in task["entries"]:
            out.append(explore(S.SensorHarness("C11", ent), max_paths=20000, max_seconds=300, witnesses_per_outcome=1,
                               trace=len(out) < 3))
    elif fn == "kernel":
        G.sensor.decode_day_of_week, G.sensor.decode_months = G.orig_sensor_fns
        for k in task["k"]:
            out.append(explore(KernelHarness(*k), max_paths=70000, max_seconds=1200, witnesses_per_outcome=2))
    elif fn == "settings":
        for cfg, sid in task["items"]:
            out.append(explore(SettingHarness(cfg, sid), max_paths=20000, max_seconds=300, witnesses_per_outcome=1,
                               trace=len(out) < 2))
    elif fn == "bulk":
        for cfg, call, f in task["items"]:
            out.append(explore(BulkHarness(cfg, call, f), max_paths=10, witnesses_per_outcome=1, trace=len(out) < 2))
    return {"harnesses": out}


def replay(case):
    p = case["params"]
    if case["harness"].startswith("sensor"):
        return S.SensorHarness("C11", p).concrete(case["inputs"])
    if case["harness"] == "kernel":
        return KernelHarness(p["fn"], p["lo"], p["hi"], p["low_byte"]).concrete(case["inputs"])
    if case["harness"] == "read_setting":
        return SettingHarness(p["cfg"], p["id"]).concrete(case["inputs"])
    return BulkHarness(p["cfg"], p["call"], p["filler"]).concrete(case["inputs"])


def evidence_meta(tier):
    return {
        "level": "model_checking",
        "rule": "one state = one feasible path of a real sensor's read() over a fully symbolic register block (or of "
                "read_setting() over a fully symbolic register file, or of a decoder kernel over its whole input range)",
        "bounds": {"blocks": "every (read command, sensor) pair of ET/DT found by running the real read_runtime_data for the "
                             "model configurations; ES runtime block at every announced length that cuts a field + full",
                   "contents": "all bytes of the block symbolic",
                   "decode_day_of_week": "-128..127 exhaustive", "detect_schedule_type": "-128..127",
                   "decode_months": "quick: values with low byte in {0x00,0xFF} plus -3..300; thorough: -32768..32767",
                   "bulk": "concrete fillers zero/ff/seeded for key completeness"},
        "outside": ["decode_bitmap is cut (total stub) here; explored by C13", "float NaN/inf handling inside round(): "
                    "unpack('>f') is an uninterpreted total function",
                    "model configurations beyond one representative per predicate class (quick)"],
        "assumptions": ["CRC replaced by a constant on both sides in API-level harnesses (subject of C01)",
                        "decode_day_of_week/decode_months are total stubs inside the group-level harness and explored "
                        "exhaustively on their own (compositional)"],
    }
