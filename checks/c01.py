"""C01 — only validated response frames are ever delivered as results."""
from __future__ import annotations

from vf.common import explore
from . import validators as V
from . import crc_lemma

PROP = "C01"
MODE = "C01"


def _instances(tier):
    inst = []
    for framing, kinds in V.KINDS.items():
        for kind in kinds:
            ms = (4,) if kind in ("multi",) else (0,)
            if kind == "multi" and tier == "thorough":
                ms = (2, 4, 12, 246)
            for m in ms:
                for n in V.lengths(tier, framing, kind, m):
                    inst.append((framing, kind, n, m))
    return inst


def tasks(tier, seed):
    inst = _instances(tier)
    # big frames cost more (the symbolic slice bound is enumerated): interleave so that chunks are balanced
    inst.sort(key=lambda t: -t[2])
    nchunks = 48 if tier == "quick" else 160
    chunks = [inst[i::nchunks] for i in range(nchunks)]
    ts = [{"name": f"validators-{i}", "fn": "validators", "mode": MODE, "instances": c} for i, c in enumerate(chunks) if c]
    ts += crc_lemma.tasks(tier)
    ts.append({"name": "crosshair", "fn": "crosshair"})
    return ts


def run_task(task):
    if task["fn"] == "crc":
        return crc_lemma.run_task(task)
    if task["fn"] == "crosshair":
        from . import crosshair_xc
        return {"lemmas": [crosshair_xc.run()]}
    out = []
    for framing, kind, n, m in task["instances"]:
        h = V.ValidatorHarness(task["mode"], framing, kind, n, m)
        out.append(explore(h, max_paths=20000, max_seconds=600))
    return {"harnesses": out}


def replay(case):
    if case["harness"].startswith("lemma"):
        return crc_lemma.replay(case)
    p = case["params"]
    h = V.ValidatorHarness(MODE, p["framing"], p["kind"], p["n"], p["m"])
    return h.concrete(case["inputs"])


def evidence_meta(tier):
    return {
        "level": "model_checking",
        "rule": "one state = one feasible path of a real validator on a frame of n symbolic bytes with symbolic request "
                "arguments (the path condition characterises a set of frames); distinct by construction",
        "bounds": {"frame_length_n": "0..24 plus L-1,L,L+1 for count 1/61/125 (quick); every n in 0..264 (thorough)",
                   "count": "1..125 symbolic", "register": "0..65535 symbolic", "value": "-32768..32767 symbolic",
                   "write_multi_payload_bytes": "4 (quick); 2,4,12,246 (thorough)",
                   "crc_lemma_message_lengths": crc_lemma.lengths(tier)},
        "outside": ["frames longer than 264 bytes", "CRC table equivalence for message lengths not listed",
                    "the transport half (datagram_received -> set_result) is covered by C04/C07"],
        "assumptions": [
            "_modbus_checksum is replaced by an uninterpreted function inside the validator harness; lemma K-CRC shows "
            "the real table-driven function equals bitwise CRC-16/MODBUS for the listed message lengths",
            "name-rebinding shims for int/bytes/bytearray/io (validated by ./vcheck selftest)",
            "every violation model is replayed on the pristine code with the real CRC before it is reported"],
        "explanation": "bounded symbolic execution of the real validators; every path ends in an obligation that z3 "
                       "discharges for all frames of that path",
    }
