"""C01 — only validated response frames are ever delivered as results."""
from __future__ import annotations

from vf.common import explore
from . import validators as V
from . import crc_lemma

PROP = "C01"
MODE = "C01"


def _instances(tier):
    inst = []
    for framing, kinds in V.KINDS.items():
        for kind in kinds:
            ms = (4,) if kind in ("multi",) else (0,)
            if kind == "multi" and tier == "thorough":
                ms = (2, 4, 12, 246)
            for m in ms:
                for n in V.lengths(tier, framing, kind, m):
                    inst.append((framing, kind, n, m))
    return inst


def _delivered(framing, ka, count, variant):
    """Transport half: what ProtocolCommand.execute hands out as the result when the answer arrives in two pieces (the
    only place where the delivered bytes are not literally the bytes the validator just saw).  Reuses the scripted
    peer of C07 with the C01 oracle: a successful result is a well-formed answer to that very request."""
    import z3
    from symx.core import to_z3
    from symx.sbytes import SBytes
    from .c07 import Fragments
    from .validators import crc16_reference

    class Delivered(Fragments):
        name = "delivered-is-wellformed"

        def verdict(self, obs, check, fail):
            if obs.abort is not None or obs.outcome != "response":
                return
            raw = obs.raw
            n = 2 * self.count
            if raw is None:
                fail("request succeeded without data")
            concrete = isinstance(raw, (bytes, bytearray))
            items = list(bytes(raw)) if concrete else list(SBytes.of(raw).items)
            head = {"rtu": 7, "tcp": 9, "aa55": 9}[self.framing]
            # the same grammar as the validator-level obligation (checks/validators.py:wellformed): function/type,
            # byte count resp. length byte, checksum — the property does not list the AA55/RTU header magic, and an
            # AA55 answer announces its own payload length (the request does not fix it)
            if len(items) < head or (self.framing != "aa55" and len(items) < head + n) or (self.framing == "rtu" and len(items) != head + n):
                fail("a result of the wrong length was delivered", f"{len(items)} bytes")
            z = [b if isinstance(b, int) else to_z3(b) for b in items]
            conds = []
            if self.framing == "rtu":
                conds += [z[3] == 3, z[4] == n]
            elif self.framing == "tcp":
                conds += [z[7] == 3, z[8] == n, z[4] * 256 + z[5] + 6 <= len(items)]
            else:
                t0, t1 = obs.pieces["good"][4], obs.pieces["good"][5]
                conds += [z[4] == t0, z[5] == t1, z[6] == len(items) - 9,
                          z3.Sum([b if not isinstance(b, int) else z3.IntVal(b) for b in z[:-2]]) == z[-2] * 256 + z[-1]]
            for c in conds:
                check(c if isinstance(c, bool) else c, "a result that is not a well-formed answer to the request was delivered")
            if self.framing == "rtu" and concrete:
                b = bytes(raw)
                if crc16_reference(b[2:-2]) != b[-2] + 256 * b[-1]:
                    fail("a result with a wrong CRC-16 was delivered")
            if self.variant == "exact":
                from .c07 import _bytes_eq
                eq = _bytes_eq(raw, obs.pieces["good"])
                if eq is not True:
                    check(eq, "the delivered result is not the frame that was validated")
    return Delivered(framing, ka, count, variant)


def tasks(tier, seed):
    inst = _instances(tier)
    # big frames cost more (the symbolic slice bound is enumerated): interleave so that chunks are balanced
    inst.sort(key=lambda t: -t[2])
    nchunks = 48 if tier == "quick" else 160
    chunks = [inst[i::nchunks] for i in range(nchunks)]
    ts = [{"name": f"validators-{i}", "fn": "validators", "mode": MODE, "instances": c} for i, c in enumerate(chunks) if c]
    ts += crc_lemma.tasks(tier)
    ts.append({"name": "crosshair", "fn": "crosshair"})
    for framing in ("rtu", "tcp", "aa55"):
        for ka in (False, True):
            for c in ((2,) if tier == "quick" else (1, 2, 61)):
                for v in ("exact", "minus1", "plus1", "other_request") + (("symbolic",) if framing != "rtu" else ()):
                    ts.append({"name": f"delivered-{framing}-{ka}-{c}-{v}", "fn": "delivered", "args": [framing, ka, c, v]})
    return ts


def run_task(task):
    if task["fn"] == "crc":
        return crc_lemma.run_task(task)
    if task["fn"] == "delivered":
        return {"harnesses": [explore(_delivered(*task["args"]), max_paths=60000, max_seconds=900, witnesses_per_outcome=1)]}
    if task["fn"] == "crosshair":
        from . import crosshair_xc
        return {"lemmas": [crosshair_xc.run()]}
    out = []
    for framing, kind, n, m in task["instances"]:
        h = V.ValidatorHarness(task["mode"], framing, kind, n, m)
        out.append(explore(h, max_paths=20000, max_seconds=600))
    return {"harnesses": out}


def replay(case):
    if case["harness"].startswith("lemma"):
        return crc_lemma.replay(case)
    p = case["params"]
    if case["harness"] == "delivered-is-wellformed":
        return _delivered(p["framing"], p["keep_alive"], p["count"], p["variant"]).concrete(case["inputs"])
    h = V.ValidatorHarness(MODE, p["framing"], p["kind"], p["n"], p["m"])
    return h.concrete(case["inputs"])


def evidence_meta(tier):
    return {
        "level": "model_checking",
        "rule": "one state = one feasible path of a real validator on a frame of n symbolic bytes with symbolic request "
                "arguments (the path condition characterises a set of frames); distinct by construction",
        "bounds": {"frame_length_n": "0..24 plus L-1,L,L+1 for count 1/61/125 (quick); every n in 0..264 (thorough)",
                   "count": "1..125 symbolic", "register": "0..65535 symbolic", "value": "-32768..32767 symbolic",
                   "write_multi_payload_bytes": "4 (quick); 2,4,12,246 (thorough)",
                   "crc_lemma_message_lengths": crc_lemma.lengths(tier)},
        "outside": ["frames longer than 264 bytes", "CRC table equivalence for message lengths not listed",
                    "transport half: only answers arriving in two pieces (C07's peer, count 2; 1/2/61 thorough) — whole "
                    "datagrams are delivered as the very bytes the validator accepted (C04 checks result typing)"],
        "assumptions": [
            "_modbus_checksum is replaced by an uninterpreted function inside the validator harness; lemma K-CRC shows "
            "the real table-driven function equals bitwise CRC-16/MODBUS for the listed message lengths",
            "name-rebinding shims for int/bytes/bytearray/io (validated by ./vcheck selftest)",
            "every violation model is replayed on the pristine code with the real CRC before it is reported"],
        "explanation": "bounded symbolic execution of the real validators; every path ends in an obligation that z3 "
                       "discharges for all frames of that path",
    }
