"""C09 — failures surface only as InverterError, with a correct consecutive-failure count."""
from __future__ import annotations

import z3

from symx.core import sym_int, to_z3, SInt
from symx.sbytes import SBytes
from vf.common import Harness, shimmed, real, explore
from . import history as H, transport as TR, models
from .c04 import CONFIGS_QUICK, ALPHABET, ALPHABET_QUICK
from .fakeinv import World, const_crc, drive, FakeInverter

PROP = "C09"


class CounterStep(Harness):
    """Inductive step for consecutive_failures_count: the real Inverter._read_from_socket from an arbitrary counter
    value c >= 0, with ProtocolCommand.execute answering by symbolic choice."""

    name = "counter-step"
    params = {}

    def _run(self, M, c, choice):
        inv = M.et.ET("10.0.0.1", 8899, 0, 1, 0)
        inv._consecutive_failures_count = c
        X = M.exceptions
        cmd = inv._read_command(35100, 1)

        async def execute(protocol):
            if choice == 0:
                return "RESULT"
            if choice == 1:
                raise X.MaxRetriesException()
            if choice == 2:
                raise X.RequestFailedException("no response")
            raise X.RequestRejectedException("ILLEGAL DATA ADDRESS")
        cmd.execute = execute
        try:
            r = drive(inv._read_from_socket(cmd))
            return ("result", r, inv._consecutive_failures_count, None)
        except X.RequestFailedException as e:
            return ("failed", None, inv._consecutive_failures_count, e.consecutive_failures_count)
        except X.RequestRejectedException as e:
            return ("rejected", None, inv._consecutive_failures_count, None)

    def symbolic(self, ex):
        G = shimmed()
        c = sym_int("c", 0, 10 ** 6)
        choice = int(sym_int("choice", 0, 3))
        try:
            kind, r, after, carried = self._run(G, c, choice)
        except Exception as e:  # noqa: BLE001
            ex.fail("_read_from_socket raised an exception outside the InverterError family", f"{type(e).__name__}: {e}")
        if choice == 0:
            ex.check(z3.And(kind == "result", to_z3(after) == 0), "a success does not reset the failure counter")
        elif choice in (1, 2):
            if kind != "failed":
                ex.fail("a failed request is not reported as RequestFailedException", kind)
            ex.check(z3.And(to_z3(after) == c.e + 1, to_z3(carried) == c.e + 1), "failure counter is not previous+1")
        else:
            if kind != "rejected":
                ex.fail("a rejection is not reported as RequestRejectedException", kind)
            ex.check(to_z3(after) == c.e, "a rejection changed the failure counter")
        return kind

    def concrete(self, inputs):
        R = real()
        c, choice = inputs.get("c", 0), inputs.get("choice", 0)
        try:
            kind, r, after, carried = self._run(R, c, choice)
        except Exception as e:  # noqa: BLE001
            return {"outcome": "raised", "violation": f"counter step: raised {type(e).__name__}", "observed": str(e)}
        ok = (choice == 0 and kind == "result" and after == 0) or (choice in (1, 2) and kind == "failed" and after == c + 1 == carried) \
            or (choice == 3 and kind == "rejected" and after == c)
        return {"outcome": kind, "violation": None if ok else f"counter step: wrong count after outcome {choice}",
                "observed": f"c={c} choice={choice} -> {kind} counter={after} carried={carried}"}


class Identification(Harness):
    """Checksum-valid identification data with one arbitrary byte at an arbitrary position: discover() and
    read_device_info() may only fail with InverterError."""

    name = "identification"

    def __init__(self, entry, family, field):
        self.entry, self.family, self.field = entry, family, field
        self.params = {"entry": entry, "family": family, "field": list(field)}

    def _run(self, M, pos, val, crc):
        serial = {"ET": "9010KETU218W0001", "ES": "95048ESU218W0001", "DT": "9010KDTU218W0001"}[self.family]
        dev = {"family": self.family, "serial": serial}
        with World(M, dev, crc=crc) as w:
            f = w.fake
            if self.entry == "discover" or self.family == "ES":
                info = list(f.es_info)
                info[pos] = val
                f.es_info = info
            else:
                base = 0x88b8 if self.family == "ET" else 0x7531
                n = 0x21 if self.family == "ET" else 0x28
                raw = f.read_bytes(base, n)
                raw[pos] = val
                f.write_bytes(base, raw)
            X = M.exceptions
            try:
                if self.entry == "discover":
                    inv = drive(M.pkg.discover("10.0.0.1", 8899, 1, 0))
                else:
                    inv = drive(M.pkg.connect("10.0.0.1", 8899, self.family, 0, 1, 0))
                return ("ok", None)
            except X.InverterError as e:
                return ("inverter-error", e)

    def symbolic(self, ex):
        G = shimmed()
        G.modbus._modbus_checksum = const_crc
        G.sensor.decode_bitmap, G.sensor.decode_day_of_week, G.sensor.decode_months = G.orig_bitmap, *G.orig_sensor_fns
        lo, hi = self.field
        pos = int(sym_int("pos", lo, hi - 1))
        # every value is its own path anyway (text decoding forks per character): enumerate it up front so that the
        # identification strings are plain str objects (indexing a string that carries symbolic-character tokens is
        # not modelled)
        val = int(sym_int("val", 0, 255))
        try:
            kind, e = self._run(G, pos, val, const_crc)
        except Exception as e:  # noqa: BLE001
            ex.fail("identification data made a public call fail with a non-InverterError exception", f"{type(e).__name__}: {e}")
        return kind

    def concrete(self, inputs):
        R = real()
        pos, val = inputs.get("pos", self.field[0]), inputs.get("val", 0)
        try:
            kind, e = self._run(R, pos, val, None)
        except Exception as e:  # noqa: BLE001
            return {"outcome": "raised", "violation": f"{self.entry}({self.family}): {type(e).__name__} for non-ASCII/odd identification data",
                    "observed": f"byte {pos} = {val:#04x}: {type(e).__name__}: {e}"}
        return {"outcome": kind, "violation": None, "observed": f"byte {pos} = {val:#04x}: {kind}"}


class PublicCount(Harness):
    """The failure count as a user sees it: connect(), read_runtime_data(), read_setting(), read_device_info() again,
    read_runtime_data() again on one inverter object, where each of the first N requests of the run is lost or
    answered by (solver-enumerated) choice.  Every RequestFailedException that reaches the caller must carry the number
    of requests lost since the last answered one — also when the lost requests were optional probes whose failure the
    library swallows."""

    name = "public-count"

    def __init__(self, family, refuse, n):
        self.family, self.refuse, self.n = family, list(refuse), n
        self.params = {"family": family, "refuse": self.refuse, "n": n}

    def _run(self, M, decide, crc):
        serial = {"ET": "9010KETU218W0001", "ES": "95048ESU218W0001", "DT": "9010KDTU218W0001"}[self.family]
        dev = {"family": self.family, "serial": serial}
        blocks = models.ET_BLOCKS if self.family == "ET" else models.DT_BLOCKS
        ref, k, seen = [0], [0], []
        X = M.exceptions
        with World(M, dev, refuse=models.refuse_fn(self.refuse, blocks), crc=crc) as w:
            def lose(cmd):
                i = k[0]
                k[0] += 1
                lost = bool(decide(i)) if i < self.n else False
                if lost:
                    ref[0] += 1
                return lost

            def answered(cmd):
                ref[0] = 0
            w.lose, w.on_answered = lose, answered

            def call(label, mk):
                try:
                    return drive(mk())
                except X.RequestFailedException as e:
                    seen.append((label, e.consecutive_failures_count, ref[0]))
                except X.InverterError:
                    pass
                return None
            inv = call("connect", lambda: M.pkg.connect("10.0.0.1", 8899, self.family, 0, 1, 0))
            if inv is not None:
                call("runtime", inv.read_runtime_data)
                call("setting", lambda: inv.read_setting("grid_export_limit"))
                call("device_info", inv.read_device_info)
                call("runtime2", inv.read_runtime_data)
        return seen, k[0]

    def symbolic(self, ex):
        G = shimmed()
        G.modbus._modbus_checksum = const_crc
        G.sensor.decode_bitmap, G.sensor.decode_day_of_week, G.sensor.decode_months = G.orig_bitmap, *G.orig_sensor_fns
        cache = {}

        def decide(i):
            if i not in cache:
                cache[i] = int(sym_int(f"lost{i}", 0, 1))
            return cache[i]
        try:
            seen, total = self._run(G, decide, const_crc)
        except Exception as e:  # noqa: BLE001
            ex.fail("a public call raised an exception outside the InverterError family", f"{type(e).__name__}: {e}")
        for label, got, want in seen:
            if got != want:
                ex.fail("consecutive_failures_count is wrong", f"{label}: {got} != {want}")
        return f"{len(seen)} failures reported"

    def concrete(self, inputs):
        R = real()
        try:
            seen, total = self._run(R, lambda i: inputs.get(f"lost{i}", 0), None)
        except Exception as e:  # noqa: BLE001
            return {"outcome": "raised", "violation": f"{self.family}: public call raised {type(e).__name__}", "observed": str(e)}
        bad = [x for x in seen if x[1] != x[2]]
        lost = [i for i in range(self.n) if inputs.get(f"lost{i}", 0)]
        return {"outcome": f"{len(seen)} failures reported",
                "violation": f"{self.family}: consecutive_failures_count reported by {bad[0][0]}() is wrong" if bad else None,
                "observed": f"lost requests {lost} of {total}: reported (call, count, expected) = {seen}"}


def tasks(tier, seed):
    alphabet = ALPHABET if tier == "thorough" else ["drop", "answer", "exception", "two_fragments", "peer_closes", "send_error",
                                                     "dup_exception"]
    cfgs = [c for c in CONFIGS_QUICK if c["retries"] >= 1]
    ts = H.make_tasks(PROP, cfgs, alphabet, [[]])
    if tier == "quick":
        ts = [t for t in ts if not (t["first"] == "two_fragments" and t["second"] == "two_fragments")]
    # histories for the counter: scripted request, then silent, then answered, then silent again
    light = ["drop", "answer", "exception", "send_error", "peer_closes"]
    ts += H.make_tasks(PROP, cfgs[:2] + cfgs[2:3], light, [["silent", "answer", "silent"]] if tier == "quick" else
                       [["silent", "answer", "silent"], ["silent", "silent", "answer", "silent", "silent"]])
    # Modbus/TCP with the process-global transaction counter just below its wrap (a history of > 65535 transmissions)
    ts += H.make_tasks(PROP, [{"transport": "tcp", "keep_alive": True, "T": 2, "retries": 1, "tx_start": 0xFFFD}],
                       ["drop", "answer", "exception"], [["silent", "answer", "silent"]])
    ts.append({"name": "counter", "fn": "counter"})
    ident = [("discover", "ET", (5, 15)), ("discover", "ET", (31, 47)), ("discover", "DT", (31, 47)), ("discover", "ES", (0, 5)),
             ("connect", "ET", (6, 22)), ("connect", "ET", (22, 32)), ("connect", "ET", (42, 66)), ("connect", "DT", (6, 32)),
             ("connect", "ES", (0, 15)), ("connect", "ES", (31, 63))]
    n = 12 if tier == "quick" else 16
    for fam, refuse in (("ET", []), ("ET", ["eco_v2", "peak_shaving"]), ("DT", []), ("ES", [])):
        ts.append({"name": f"public-count-{fam}-{len(refuse)}", "fn": "public", "item": (fam, refuse, n)})
    k = 0
    for (e, f, (lo, hi)) in ident:
        for a in range(lo, hi, 6):       # chunks of 6 byte positions x 256 values (balanced tasks)
            ts.append({"name": f"ident-{k}", "fn": "ident", "item": (e, f, (a, min(a + 6, hi)))})
            k += 1
    return ts


def run_task(task):
    if task.get("fn") == "counter":
        return {"harnesses": [explore(CounterStep(), max_paths=100)]}
    if task.get("fn") == "public":
        G = shimmed()
        if not hasattr(G, "orig_sensor_fns"):
            G.orig_sensor_fns = (G.sensor.decode_day_of_week, G.sensor.decode_months)
            G.orig_bitmap = G.sensor.decode_bitmap
        return {"harnesses": [explore(PublicCount(*task["item"]), max_paths=20000, max_seconds=900, witnesses_per_outcome=1)]}
    if task.get("fn") == "ident":
        G = shimmed()
        if not hasattr(G, "orig_sensor_fns"):
            G.orig_sensor_fns = (G.sensor.decode_day_of_week, G.sensor.decode_months)
            G.orig_bitmap = G.sensor.decode_bitmap
        e, f, rng = task["item"]
        return {"harnesses": [explore(Identification(e, f, rng), max_paths=20000, max_seconds=900, witnesses_per_outcome=1)]}
    return H.run_task(task)


def replay(case):
    if case["harness"] == "counter-step":
        return CounterStep().concrete(case["inputs"])
    if case["harness"] == "public-count":
        p = case["params"]
        return PublicCount(p["family"], p["refuse"], p["n"]).concrete(case["inputs"])
    if case["harness"] == "identification":
        p = case["params"]
        return Identification(p["entry"], p["family"], p["field"]).concrete(case["inputs"])
    return H.replay(PROP, case)


def evidence_meta(tier):
    return {
        "level": "model_checking",
        "rule": "one state = one path of a public request through Inverter._read_from_socket in the virtual world (C04 "
                "alphabet incl. OS errors on send/receive), of the counter's inductive step, or of discover()/connect() on "
                "identification data with one symbolic byte at a symbolic position",
        "bounds": {"fault_scripts": "as C04 (retries+1 <= 2), followed by drain to quiescence (late callbacks)",
                   "counter": "inductive step from any counter value 0..10^6 x {success, MaxRetries, RequestFailed, rejected}; "
                              "plus end-to-end histories of 4 (quick) / 6 (thorough) requests; public calls (connect, "
                              "read_runtime_data, read_setting, read_device_info, read_runtime_data) with every loss "
                              "pattern over the first 12 (quick) / 16 (thorough) requests, ET (with/without refused "
                              "eco-v2/peak-shaving blocks), DT, ES",
                   "identification": "every byte position of model/serial/firmware fields x all 256 values"},
        "outside": ["MemoryError, KeyboardInterrupt and other interpreter-level exceptions"],
        "assumptions": ["a rejection leaves the failure counter unchanged (the statement counts requests 'without valid "
                        "answer'; a Modbus exception is a valid answer)"],
    }
