"""C06 — concurrent callers are serialised and each gets the answer to its own request."""
from __future__ import annotations

import asyncio

import z3

from symx.core import Explorer, SInt, sym_int, to_z3
from symx import vworld
from vf.common import Harness, shimmed, real, explore
from . import transport as TR
from .history import req_index, REG0

PROP = "C06"

KINDS = ("drop", "answer", "two_fragments")


class Concurrent(Harness):
    name = "concurrent"

    def __init__(self, transport, keep_alive, ntasks, T=3, retries=1, two_objects=False, pinned=None):
        self.transport, self.keep_alive, self.ntasks, self.T, self.retries = transport, keep_alive, ntasks, T, retries
        self.two_objects = two_objects
        self.shapes = False    # True: caller j reads 2+j registers (answers of different callers differ in shape)
        self.pinned = pinned   # optional {caller index: [kind per transmission]} (decomposition of the 3-caller space)
        self.params = {"transport": transport, "keep_alive": keep_alive, "ntasks": ntasks, "T": T, "retries": retries,
                       "two_objects": two_objects, "pinned": pinned}

    def _run(self, M, script):
        T, R, n = self.T, self.retries, self.ntasks
        tcp = self.transport == "tcp"
        world = vworld.World(max_time=(n + 1) * (R + 2) * (T + 6) + 6 * T, max_transmissions=n * (R + 1) + 1,
                             max_connects=n * (R + 2) + 2)
        obs = TR.Obs()
        obs.abort = None
        with world:
            loop = world.new_loop()
            scen = TR.Scenario(self.transport, self.keep_alive, T, R)
            invs = [scen.make_inverter(M)]
            if self.two_objects:
                invs.append(scen.make_inverter(M))
            rix = req_index(tcp)
            done = {}
            txlog = []   # (time, req, seq within request)
            kinds_seen = {}

            def on_send(sock, data, k):
                data = bytes(data)
                j = rix(data)
                i = sum(1 for x in txlog if x[1] == j)
                txlog.append((world.now, j, i))
                pin = (self.pinned or {}).get(str(j))
                if pin is not None and i < len(pin):
                    kind = pin[i]
                else:
                    kind = KINDS[script.small(f"kind{j}_{i}", 0, len(KINDS) - 1)]
                kinds_seen[(j, i)] = kind
                if kind == "drop":
                    return 0
                d = script.delay(i, "d", j, hi=T - 1)          # answered before that transmission's timeout
                good = TR.valid_response(tcp, data)
                if kind == "answer":
                    loop.call_later(d, lambda: (not sock.closed) and sock.rx.append(good))
                else:
                    s = 9 if tcp else 5
                    e = script.delay(i, "e", j, hi=T - 1)
                    loop.call_later(d, lambda: (not sock.closed) and sock.rx.append(good[:s]))
                    # second piece no later than T-1 after the transmission as well
                    loop.call_later(d, lambda: loop.call_later(0, lambda: (not sock.closed) and sock.rx.append(good[s:])))
                return 0
            world.peer_send = on_send

            async def caller(j):
                fixed = self.pinned and getattr(self, "pinned_offsets", True)
                if fixed and j == 0:
                    off = 0
                elif fixed and 1 <= j < n - 1:
                    off = script.delay(j, "off", 0, hi=2 * T - 1)
                else:
                    off = script.delay(j, "off", 0, hi=(3 if n > 2 else 2) * T)
                if not (isinstance(off, int) and off == 0):
                    await asyncio.sleep(off)
                inv = invs[j % len(invs)]
                cmd = inv._read_command(REG0 + 10 * j, 2 + (j if self.shapes else 0))
                try:
                    r = await inv._read_from_socket(cmd)
                    done[j] = (world.now, "response", r.response_data())
                except M.exceptions.InverterError as e:
                    done[j] = (world.now, "failed:" + type(e).__name__, None)
                except Exception as e:  # noqa: BLE001
                    done[j] = (world.now, "leak:" + type(e).__name__, None)

            async def main():
                await asyncio.gather(*[caller(j) for j in range(n)])
            try:
                vworld.run(loop, main())
            except vworld.Hang:
                obs.abort = "hang"
            except vworld.LiveLock as e:
                obs.abort = "livelock: " + str(e)
            obs.done, obs.txlog = done, txlog
            obs.kinds = dict(kinds_seen)
        return obs

    def verdict(self, obs, check, fail):
        T, n = self.T, self.ntasks
        if obs.abort is not None:
            fail("a caller never completed", obs.abort)
        for j in range(n):
            if j not in obs.done:
                fail("a caller never completed", f"caller {j}")
            t, kind, payload = obs.done[j]
            if kind.startswith("leak"):
                fail("a caller ended with a non-InverterError exception", kind)
            if kind == "response":
                want = (REG0 + 10 * j).to_bytes(2, "big") * (2 + (j if self.shapes else 0))
                if bytes(payload) != want:
                    fail("a caller received the answer to another caller's request", f"caller {j}: {bytes(payload).hex()} != {want.hex()}")
        for j in range(n):
            k = sum(1 for x in obs.txlog if x[1] == j)
            if obs.kinds.get((j, 0)) in ("answer", "two_fragments") and (k != 1 or obs.done[j][1] != "response"):
                fail("a caller whose first transmission was answered in time retransmitted or failed",
                     f"caller {j}: {k} transmissions, {obs.done[j][1]}")
            if k > self.retries + 1:
                fail("a caller's request was transmitted more than retries+1 times", f"caller {j}: {k} transmissions")
        if self.two_objects:
            return  # two objects have two sockets: no mutual exclusion between them is claimed
        # mutual exclusion on the wire
        for (t, j, i) in obs.txlog:
            for (tb, b, ib) in obs.txlog:
                if b == j:
                    continue
                # b's transmission at tb is still waiting at t: sent not later than t, not completed, younger than T
                me = obs.txlog.index((t, j, i))
                if obs.txlog.index((tb, b, ib)) > me:
                    continue
                # superseded: b was already retransmitted before this transmission went out (order of the log)
                if any(x[1] == b and x[2] > ib and obs.txlog.index(x) < me for x in obs.txlog):
                    continue
                tdone_b = obs.done[b][0]
                cond = z3.And(_le(tb, t), _ltz(t, tb + T), _ltz(t, tdone_b))
                s = z3.simplify(cond)
                if z3.is_false(s):
                    continue
                check(z3.Not(cond), "a request was transmitted while another caller's request was still waiting for its answer",
                      f"caller {j} at {t!r} while caller {b} sent at {tb!r}")

    def symbolic(self, ex):
        G = shimmed()
        G.modbus._modbus_checksum = G.orig_checksum
        script = TR.SymScript([], self.T)
        obs = self._run(G, script)

        def check(c, label, detail=""):
            if c is True:
                return
            if c is False:
                ex.fail(label, detail)
            ex.check(c, label, detail)
        self.verdict(obs, check, ex.fail)
        return "/".join(obs.done[j][1].split(":")[0] for j in range(self.ntasks))

    def concrete(self, inputs):
        R = real()
        obs = self._run(R, TR.DictScript(inputs, self.T))
        viol = []

        class Stop(Exception):
            pass

        def fail(label, detail=""):
            viol.append((label, detail))
            raise Stop()

        def check(c, label, detail=""):
            if isinstance(c, z3.ExprRef):
                c = z3.is_true(z3.simplify(c))
            if c is not True:
                fail(label, detail)
        try:
            self.verdict(obs, check, fail)
        except Stop:
            pass
        tag = f"{self.transport}{' keep-alive' if self.keep_alive else ''} {self.ntasks} callers" + (" on two objects" if self.two_objects else "")
        return {"outcome": "/".join(obs.done.get(j, (0, 'missing'))[1].split(":")[0] for j in range(self.ntasks)),
                "violation": f"{tag}: {viol[0][0]}" if viol else None,
                "observed": f"script={ {k: v for k, v in sorted(inputs.items())} } tx={obs.txlog} done={ {j: (v[0], v[1]) for j, v in obs.done.items()} } {viol[0][1] if viol else ''}"}


def _le(a, b):
    return z3.BoolVal(a <= b) if isinstance(a, (int, float)) and isinstance(b, (int, float)) else to_z3(a) <= to_z3(b)


def _ltz(a, b):
    return z3.BoolVal(a < b) if isinstance(a, (int, float)) and isinstance(b, (int, float)) else to_z3(a) < to_z3(b)


def _before_in_log(log, x, y):
    return z3.BoolVal(log.index(x) < log.index(y))


def tasks(tier, seed):
    ts = []
    for tr in ("udp", "tcp"):
        for ka in (False, True):
            ts.append({"name": f"c-{tr}-{ka}-2", "transport": tr, "ka": ka, "n": 2, "two": False})
            # three callers: the kind vector is pinned per task (one caller loses all its transmissions, the others are
            # answered / answered in fragments), start offsets (0..3T) and answer delays stay symbolic
            vectors = [{"0": ["drop", "drop"], "1": ["answer", "answer"], "2": ["answer", "answer"]}]
            if tier == "thorough":
                vectors += [{"0": ["drop", "drop"], "1": ["two_fragments", "answer"], "2": ["answer", "answer"]},
                            {"0": ["drop", "answer"], "1": ["drop", "answer"], "2": ["answer", "answer"]},
                            {"0": ["answer", "answer"], "1": ["drop", "drop"], "2": ["two_fragments", "answer"]}]
            for vi, vec in enumerate(vectors):
                ts.append({"name": f"c-{tr}-{ka}-3-{vi}", "transport": tr, "ka": ka, "n": 3, "two": False, "pinned": vec})
    ts.append({"name": "c-tcp-two-objects", "transport": "tcp", "ka": True, "n": 2, "two": True})
    ts.append({"name": "c-udp-two-objects", "transport": "udp", "ka": True, "n": 2, "two": True})
    return ts


def run_task(task):
    h = Concurrent(task["transport"], task["ka"], task["n"], two_objects=task["two"], pinned=task.get("pinned"))
    return {"harnesses": [explore(h, max_paths=150000, max_seconds=2400, witnesses_per_outcome=1)]}


def replay(case):
    p = case["params"]
    return Concurrent(p["transport"], p["keep_alive"], p["ntasks"], p["T"], p["retries"], p.get("two_objects", False), p.get("pinned")).concrete(case["inputs"])


def evidence_meta(tier):
    return {
        "level": "model_checking",
        "rule": "one state = one path of 2 (quick) / 3 (thorough) tasks calling Inverter._read_from_socket concurrently on one "
                "inverter object in the virtual world: start offsets and answer delays are symbolic ticks (ordering decided by "
                "the solver in the real event-loop heap), each transmission is dropped, answered in time or answered in two "
                "fragments in time",
        "bounds": {"callers": "2 (quick), 3 (thorough)", "transmissions_per_request": "retries+1 = 2", "T": 3,
                   "start_offsets": "0..2T", "answer_delay": "0..T-1 (the property's proviso)",
                   "two_objects": "two inverter objects used concurrently (each caller must get its own answer)"},
        "outside": ["OS threads", "more than 3 callers", "answers later than the transmission's timeout (excluded by the property)"],
        "assumptions": ["'waiting for its answer' = transmitted, caller not finished, less than T ticks old, not retransmitted"],
    }
