"""Per-sensor symbolic harness shared by C11 (totality), C12 (documented reading of own registers), C14 (reads stay
inside the fetched window).  The tables, register windows and read commands are taken from the live inverter objects
(see models.discover_blocks)."""
from __future__ import annotations

import z3

from symx import sbytes as sb
from symx.core import Explorer, SInt, SReal, SBool, cur, concrete_of, to_z3
from symx.sbytes import SBytes
from symx.shims import SDateTime, datetime_valid_expr, _UF_F32, _UF_ROUNDN, wrap_sensor_labels
from vf.common import Harness, shimmed, real
from . import models
from .fakeinv import const_crc, drive, FakeInverter

# reference width (bytes consumed) per sensor class — from the class docstrings, independent of size_
WIDTH = {"Voltage": 2, "Current": 2, "CurrentS": 2, "Frequency": 2, "Power": 2, "PowerS": 2, "Power4": 4,
         "Power4S": 4, "Energy": 2, "Energy4": 4, "Energy4W": 4, "Energy8": 8, "Apparent": 2, "Apparent4": 4,
         "Reactive": 2, "Reactive4": 4, "Temp": 2, "CellVoltage": 2, "Byte": 1, "ByteH": 1, "ByteL": 2,
         "Integer": 2, "IntegerS": 2, "Long": 4, "LongS": 4, "Decimal": 2, "Float": 4, "Timestamp": 6, "Enum": 1,
         "EnumH": 1, "EnumL": 2, "Enum2": 2, "EnumBitmap4": 4, "EcoModeV1": 8, "EcoModeV2": 12, "Schedule": 12,
         "PeakShavingMode": 12}


def cls_name(s):
    return type(s).__name__


# ---------------------------------------------------------------------------------------------------------------
# catalog of (configuration, block, sensor)
# ---------------------------------------------------------------------------------------------------------------
def _cmd_key(cmd):
    return (type(cmd).__name__, getattr(cmd, "first_address", None), getattr(cmd, "value", None))


def catalog(M, tier, settings=False, faults=False):
    """Unique (block command, sensor) pairs over the model configurations, as dicts that a worker can rebuild."""
    out, seen = [], set()
    cfgs = models.et_configs(M, tier) + models.dt_configs(M, tier)
    if faults:
        cfgs = cfgs + models.et_fault_configs(M, tier) + models.dt_fault_configs(M, tier)
    for cfg in cfgs:
        try:
            inv, fake, blocks = models.discover_blocks(M, cfg)
        except Exception as e:  # noqa: BLE001
            out.append({"cfg": cfg, "error": f"{type(e).__name__}: {e}"})
            continue
        for bi, (cmd, sensors) in enumerate(blocks):
            for si, s in enumerate(sensors):
                key = (cfg["family"], _cmd_key(cmd), s.id_, s.offset, cls_name(s))
                if key in seen:
                    continue
                seen.add(key)
                out.append({"cfg": cfg, "block": bi, "sensor": si, "id": s.id_, "cls": cls_name(s),
                            "first": cmd.first_address, "count": cmd.value, "kind": "runtime"})
    if settings:
        from .c11 import SETTING_CFGS
        for cfg in SETTING_CFGS:
            inv, fake = models.make(M, cfg)
            for si, st in enumerate(inv.settings()):
                key = (cfg["family"], "setting", st.id_, st.offset, cls_name(st))
                if key in seen:
                    continue
                seen.add(key)
                out.append({"cfg": cfg, "block": -1, "sensor": si, "id": st.id_, "cls": cls_name(st),
                            "first": st.offset, "count": (st.size_ + st.size_ % 2) // 2, "kind": "setting"})
    # ES runtime: one AA55 block, every announced length that cuts a field short plus the full length
    es_cfg = {"family": "ES"}
    inv, fake = models.make(M, es_cfg)
    sensors = inv.sensors()
    full = max([s.offset + WIDTH.get(cls_name(s), s.size_) for s in sensors if cls_name(s) in WIDTH] + [93])
    for si, s in enumerate(sensors):
        w = WIDTH.get(cls_name(s))
        lens = {full}
        if w:
            lens.update(range(s.offset, s.offset + w))
        else:
            lens.update((0, 20, 40, 81))
        if tier == "thorough":
            lens.update(range(0, full + 1, 1 if w is None else 7))
        for L in sorted(lens):
            out.append({"cfg": {"family": "ES", "runtime_len": L}, "block": 0, "sensor": si, "id": s.id_,
                        "cls": cls_name(s), "first": 0, "count": L, "kind": "es_runtime"})
    return out


_DISCOVER_CACHE = {}
LAST_TABLE = {}


def table_filler(kind, n):
    """concrete surroundings for the table-level check: 'zero' and 'ff' make several *other* sensors undecodable
    (month 0 / month 255 in the timestamp ...), which must not influence the sensor under test"""
    if kind == "zero":
        return bytes(n)
    if kind == "ff":
        return bytes([0xFF]) * n
    return bytes((i * 73 + 19) % 256 for i in range(n))


def rebuild(M, ent):
    """-> (command, sensor, block_len_bytes) in module copy M"""
    if M.prefix == "goodwe":
        M.modbus._modbus_checksum = const_crc
    if ent["kind"] == "setting":
        key = (M.prefix, "setting", repr(sorted(ent["cfg"].items())))
        if key not in _DISCOVER_CACHE:
            inv, fake = models.make(M, ent["cfg"], crc=const_crc if M.prefix == "goodwe" else None)
            _DISCOVER_CACHE[key] = (inv, inv.settings())
        inv, sts = _DISCOVER_CACHE[key]
        st = sts[ent["sensor"]]
        if st.id_ != ent["id"]:
            raise RuntimeError(f"catalog mismatch: {st.id_} != {ent['id']}")
        if ent["cfg"]["family"] == "ES" and st.offset < 30000 and cls_name(st) not in ("EcoModeV1", "ByteH"):
            return inv._READ_DEVICE_SETTINGS_DATA, st, 86      # decoded from the 0109 settings block at its offset
        if ent["cfg"]["family"] == "ES" and st.offset < 30000:
            cmd = M.protocol.Aa55ReadCommand(st.offset, ent["count"])
        else:
            cmd = inv._read_command(st.offset, ent["count"])
        return cmd, st, 2 * ent["count"]
    key = (M.prefix, repr(sorted(ent["cfg"].items())))
    if key not in _DISCOVER_CACHE:
        cfg = ent["cfg"]
        if cfg["family"] == "ES":
            inv, fake = models.make(M, cfg, crc=const_crc if M.prefix == "goodwe" else None)
            _DISCOVER_CACHE[key] = (inv, [(inv._READ_DEVICE_RUNNING_DATA, inv.sensors())])
        else:
            inv, fake, blocks = models.discover_blocks(M, cfg, crc=const_crc if M.prefix == "goodwe" else None)
            _DISCOVER_CACHE[key] = (inv, blocks)
    inv, blocks = _DISCOVER_CACHE[key]
    cmd, sensors = blocks[ent["block"]]
    s = sensors[ent["sensor"]]
    if s.id_ != ent["id"]:
        raise RuntimeError(f"catalog mismatch: {s.id_} != {ent['id']}")
    nbytes = ent["count"] if ent["kind"] == "es_runtime" else 2 * cmd.value
    LAST_TABLE[M.prefix] = (type(inv), sensors)
    return cmd, s, nbytes


def block_response(M, cmd, payload):
    """ProtocolResponse of a full-length answer whose payload is `payload` (header/trailer bytes are filler: the
    validators are the subject of C01/C02, here only trim_response/get_offset matter)."""
    P = M.protocol
    n = len(payload)
    if isinstance(cmd, P.ModbusRtuProtocolCommand):
        raw = bytes([0xAA, 0x55, 0xF7, 3, n & 0xFF]) + payload + b"\x00\x00"
    elif isinstance(cmd, P.ModbusTcpProtocolCommand):
        raw = bytes([0, 1, 0, 0, 0, (n + 3) & 0xFF, 0xF7, 3, n & 0xFF]) + payload
    else:
        raw = bytes([0xAA, 0x55, 0x7F, 0xC0, 1, 0x86, n & 0xFF]) + payload + b"\x00\x00"
    if isinstance(raw, SBytes) and raw.is_concrete():
        raw = raw.concrete()
    return P.ProtocolResponse(raw, cmd)


def position(cmd, s, M):
    if isinstance(cmd, M.protocol.Aa55ReadCommand):
        return 0 if s.offset == cmd.first_address else s.offset
    if isinstance(cmd, (M.protocol.ModbusRtuProtocolCommand, M.protocol.ModbusTcpProtocolCommand)):
        return (s.offset - cmd.first_address) * 2
    return s.offset


# ---------------------------------------------------------------------------------------------------------------
# reference decoders (C12) — written from the class docstrings / units
# ---------------------------------------------------------------------------------------------------------------
def _u(bs):
    acc = z3.IntVal(0)
    for b in bs:
        acc = acc * 256 + b
    return acc


def _s(bs):
    u = _u(bs)
    n = len(bs)
    return z3.If(u >= 2 ** (8 * n - 1), u - 2 ** (8 * n), u)


def reference(cls, s, b):
    """b: list of z3 Int terms (the sensor's own bytes).  Returns ('scalar', none_cond, value_term) |
    ('datetime', valid_cond, fields) | ('label', code_term, labels) | ('group', dict) | None (no reference)."""
    R = z3.ToReal
    F, T = z3.BoolVal(False), z3.BoolVal(True)
    if cls in ("Voltage", "Current"):
        u = _u(b[:2])
        return ("scalar", F, z3.If(u == 0xFFFF, z3.RealVal(0), R(u) / 10))
    if cls == "CellVoltage":
        u = _u(b[:2])
        return ("scalar", F, z3.If(u == 0xFFFF, z3.RealVal(0), R(u) / 10) / 100)
    if cls == "CurrentS":
        return ("scalar", F, R(_s(b[:2])) / 10)
    if cls == "Frequency":
        return ("scalar", F, R(_s(b[:2])) / 100)
    if cls == "Power":
        u = _u(b[:2])
        return ("scalar", u == 0xFFFF, u)
    if cls in ("PowerS", "Apparent", "Reactive", "IntegerS"):
        return ("scalar", F, _s(b[:2]))
    if cls == "Power4":
        u = _u(b[:4])
        return ("scalar", u == 0xFFFFFFFF, u)
    if cls in ("Power4S", "Apparent4", "Reactive4", "LongS"):
        return ("scalar", F, _s(b[:4]))
    if cls == "Energy":
        u = _u(b[:2])
        return ("scalar", u == 0xFFFF, R(u) / 10)
    if cls == "Energy4":
        u = _u(b[:4])
        return ("scalar", u == 0xFFFFFFFF, R(u) / 10)
    if cls == "Energy4W":
        u = _u(b[:4])
        return ("scalar", u == 0xFFFFFFFF, R(u) / 1000)
    if cls == "Energy8":
        u = _u(b[:8])
        return ("scalar", u == 2 ** 64 - 1, R(u) / 100)
    if cls == "Temp":
        v = _s(b[:2])
        return ("scalar", z3.Or(v == -1, v == 32767), R(v) / 10)
    if cls in ("Byte", "ByteH"):
        return ("scalar", F, _s(b[:1]))
    if cls == "ByteL":
        return ("scalar", F, _s(b[1:2]))
    if cls == "Integer":
        u = _u(b[:2])
        return ("scalar", F, z3.If(u == 0xFFFF, 0, u))
    if cls == "Long":
        u = _u(b[:4])
        return ("scalar", F, z3.If(u == 0xFFFFFFFF, 0, u))
    if cls == "Decimal":
        return ("scalar", F, R(_s(b[:2])) / s.scale)
    if cls == "Float":
        return ("float", _u(b[:4]), s.scale)
    if cls == "Timestamp":
        f = [2000 + b[0], b[1], b[2], b[3], b[4], b[5]]
        return ("datetime", datetime_valid_expr(*f), f)
    if cls == "EcoModeV1":
        f = {"start_h": _s(b[0:1]), "start_m": _s(b[1:2]), "end_h": _s(b[2:3]), "end_m": _s(b[3:4]),
             "power": _s(b[4:6]), "on_off": _s(b[6:7]), "day_bits": _s(b[7:8])}
        hour = lambda h: z3.Or(z3.And(h >= 0, h <= 23), h == 48)  # noqa: E731
        minute = lambda m: z3.And(m >= 0, m <= 59)  # noqa: E731
        valid = z3.And(hour(f["start_h"]), minute(f["start_m"]), hour(f["end_h"]), minute(f["end_m"]),
                       f["power"] >= -100, f["power"] <= 100, z3.Or(f["on_off"] == 0, f["on_off"] == -1))
        return ("group", valid, f)
    if cls in ("EcoModeV2", "Schedule", "PeakShavingMode"):
        f = {"start_h": _s(b[0:1]), "start_m": _s(b[1:2]), "end_h": _s(b[2:3]), "end_m": _s(b[3:4]),
             "on_off": _s(b[4:5]), "day_bits": _s(b[5:6]), "power": _s(b[6:8]), "soc": _s(b[8:10]),
             "month_bits": _s(b[10:12])}
        hour = lambda h: z3.Or(z3.And(h >= 0, h <= 23), h == 48, h == -1)  # noqa: E731
        minute = lambda m: z3.Or(z3.And(m >= 0, m <= 59), m == -1)  # noqa: E731
        oo = f["on_off"]
        known_type = z3.Or(z3.And(oo >= -7, oo <= 6), oo == 85)
        eco = z3.Or(oo == 0, oo == -1)
        eco745 = z3.Or(oo == 6, oo == -7)
        prange = z3.And(z3.Implies(eco, z3.And(f["power"] >= -100, f["power"] <= 100)),
                        z3.Implies(eco745, z3.And(f["power"] >= -1000, f["power"] <= 1000)))
        valid = z3.And(hour(f["start_h"]), minute(f["start_m"]), hour(f["end_h"]), minute(f["end_m"]), known_type,
                       prange, f["soc"] >= 0, f["soc"] <= 100)
        return ("group", valid, f)
    if cls in ("Enum", "EnumH"):
        return ("label", _s(b[:1]), s._labels)
    if cls == "EnumL":
        return ("label", _s(b[1:2]), s._labels)
    if cls == "Enum2":
        u = _u(b[:2])
        return ("label", z3.If(u == 0xFFFF, 0, u), s._labels)
    return None


# ---------------------------------------------------------------------------------------------------------------
# harness
# ---------------------------------------------------------------------------------------------------------------
ALLOWED_RUNTIME = (ValueError,)


class SensorHarness(Harness):
    def __init__(self, mode, ent):
        self.mode, self.ent = mode, ent
        self.name = f"sensor[{mode}]"
        self.params = {k: ent[k] for k in ("cfg", "block", "sensor", "id", "cls", "first", "count", "kind")}
        if ent.get("table"):
            self.params["table"] = ent["table"]
        if ent.get("public"):
            self.params["public"] = True

    def _single(self):
        """settings fetched by their own one-sensor request are decoded with read_value() from position 0"""
        return self.ent["kind"] == "setting" and not (self.ent["cfg"]["family"] == "ES" and self.ent["first"] < 30000
                                                      and self.ent["cls"] not in ("EcoModeV1", "ByteH"))

    def _public_read(self, M, crc, payload):
        """The value as a user gets it: inv.read_setting(id) on a fresh inverter object whose every request is
        answered with a full-length response carrying `payload`."""
        from .fakeinv import drive
        inv, _fake = models.make(M, self.ent["cfg"], crc=crc)
        st = inv.settings()[self.ent["sensor"]]
        if st.id_ != self.ent["id"]:
            raise RuntimeError(f"catalog mismatch: {st.id_} != {self.ent['id']}")
        if M.prefix == "goodwe":
            for other in inv.settings():
                wrap_sensor_labels(other)

        async def answer(command):
            return block_response(M, command, payload)
        inv._read_from_socket = answer
        return drive(inv.read_setting(st.id_))

    def symbolic(self, ex: Explorer) -> str:
        G = shimmed()
        G.modbus._modbus_checksum = const_crc
        cmd, s, nbytes = rebuild(G, self.ent)
        wrap_sensor_labels(s)
        tab = self.ent.get("table")
        pub = self.ent.get("public")
        if pub and nbytes == 86:
            # ES settings block: the public call decodes the whole table; only this setting's bytes are symbolic
            w = WIDTH.get(cls_name(s), 0)
            pos = position(cmd, s, G)
            fill = table_filler("mix", nbytes)
            sym = SBytes.symbolic("B", nbytes)
            payload = SBytes(tuple(fill[:pos]) + tuple(sym.items[pos:pos + w]) + tuple(fill[pos + w:]))
        elif tab:
            # table level: the real _map_response over the whole live table; only this sensor's bytes are symbolic
            w = WIDTH.get(cls_name(s), 0)
            pos = position(cmd, s, G)
            fill = table_filler(tab, nbytes)
            sym = SBytes.symbolic("B", nbytes)
            payload = SBytes(tuple(fill[:pos]) + tuple(sym.items[pos:pos + w]) + tuple(fill[pos + w:]))
            inv_cls, sensors = LAST_TABLE[G.prefix]
            for other in sensors:
                wrap_sensor_labels(other)
        else:
            payload = SBytes.symbolic("B", nbytes) if nbytes else b""
        resp = block_response(G, cmd, payload)
        log = sb.READ_LOG = []
        try:
            try:
                if pub:
                    got = self._public_read(G, const_crc, payload)
                    outcome = "value" if got is not None else "none"
                    if nbytes == 86 and cls_name(s) in ("Timestamp", "EcoModeV1", "EcoModeV2", "Schedule", "PeakShavingMode"):
                        outcome = "ValueError" if got is None else "value"
                elif tab:
                    res = inv_cls._map_response(resp, sensors)
                    if s.id_ not in res:
                        ex.fail("sensor id missing from the _map_response result")
                    ids = [x.id_ for x in sensors]
                    if ids.count(s.id_) > 1 and ids.index(s.id_) == self.ent["sensor"]:
                        return "shadowed"  # an id defined twice: the later definition wins in the dictionary
                    got = res[s.id_]
                    outcome = "value" if got is not None else "none"
                    if cls_name(s) == "Timestamp":
                        # _map_response turns ValueError into None: for the reference this is 'ValueError'
                        outcome = "ValueError" if got is None else "value"
                else:
                    got = s.read_value(resp) if self._single() else s.read(resp)
                    outcome = "value" if got is not None else "none"
            except ValueError as e:
                got, outcome = e, "ValueError"
            except Exception as e:  # noqa: BLE001
                ex.fail("sensor read raised a non-ValueError exception", f"{type(e).__name__}: {e}")
        finally:
            sb.READ_LOG = None
        if self.mode == "C14":
            short = [r for r in log if r[2] < r[1]]
            if short:
                ex.fail("sensor read past the end of the fetched block", f"reads={log}")
            return outcome
        if self.mode == "C12":
            self._check_reference(ex, G, cmd, s, payload, nbytes, got, outcome)
        if self.mode == "C11" and outcome == "value" and not tab and not pub:
            # the other half of totality: registers that cannot be interpreted (impossible date, out-of-range
            # schedule / eco-mode fields) are reported as None / ValueError, not as a value
            cls = cls_name(s)
            w = WIDTH.get(cls)
            pos = position(cmd, s, G)
            if w is not None and pos >= 0 and pos + w <= nbytes:
                ref = reference(cls, s, [to_z3(x) for x in payload[pos:pos + w]])
                if ref is not None and ref[0] in ("group", "datetime"):
                    ex.check(ref[1], "registers that cannot be interpreted are reported as a value")
        return outcome

    def _check_reference(self, ex, G, cmd, s, payload, nbytes, got, outcome):
        cls = cls_name(s)
        w = WIDTH.get(cls)
        if w is None:
            return
        pos = position(cmd, s, G)
        if pos < 0 or pos + w > nbytes:
            # not completely inside the block (that this happens at all is C14's subject; ES short blocks: C11): a
            # reading made of registers that were not fetched is not "the reading of its own registers"
            if self.ent["kind"] == "runtime" and outcome == "value":
                ex.fail("a value is reported although the sensor's registers are not (completely) inside the block that was read")
            return
        b = [to_z3(x) for x in payload[pos:pos + w]]
        ref = reference(cls, s, b)
        if ref is None:
            return
        kind = ref[0]
        if kind == "scalar":
            _, none_c, val = ref
            if outcome == "ValueError":
                ex.fail("sensor raised ValueError where the documented reading exists", str(got))
            if got is None:
                ex.check(none_c, "sensor reports None although its registers hold a value")
            else:
                g = to_z3(got) if not isinstance(got, (int, float)) or isinstance(got, bool) else to_z3(got)
                if z3.is_int(g) and z3.is_real(val):
                    g = z3.ToReal(g)
                elif z3.is_real(g) and z3.is_int(val):
                    val = z3.ToReal(val)
                ex.check(z3.And(z3.Not(none_c), g == val), "value differs from the documented reading of its registers")
        elif kind == "group":
            _, valid, f = ref
            if outcome == "ValueError":
                ex.check(z3.Not(valid), "valid eco-mode/schedule group reported as undecodable")
            else:
                ex.check(z3.And(valid, *[to_z3(getattr(got, k)) == v for k, v in f.items()]),
                         "eco-mode/schedule group fields differ from its registers")
        elif kind == "float":
            _, u, scale = ref
            special = (u / (2 ** 23)) % 256 == 255
            if outcome == "ValueError":
                ex.fail("float sensor raised ValueError", str(got))
            if isinstance(got, float):
                if got != got:
                    ex.check(z3.And(special, u % (2 ** 23) != 0), "NaN reported for registers that do not hold a NaN")
                elif got in (float("inf"), float("-inf")):
                    ex.check(u == (0x7F800000 if got > 0 else 0xFF800000), "infinity reported for other registers")
                else:
                    ex.fail("float sensor returned a concrete value for symbolic registers", repr(got))
            else:
                ex.check(z3.And(z3.Not(special), to_z3(got) == _UF_ROUNDN(_UF_F32(u) / scale, z3.IntVal(3))),
                         "value differs from the documented reading of its registers")
        elif kind == "datetime":
            _, valid, f = ref
            if outcome == "ValueError":
                ex.check(z3.Not(valid), "valid timestamp reported as undecodable")
            else:
                fields = got.fields() if isinstance(got, SDateTime) else \
                    (got.year, got.month, got.day, got.hour, got.minute, got.second)
                ex.check(z3.And(valid, *[to_z3(a) == bb for a, bb in zip(fields, f)]),
                         "timestamp differs from its registers")
        elif kind == "label":
            _, code, labels = ref
            if outcome == "ValueError":
                ex.fail("label sensor raised ValueError")
            if got is None:
                ex.check(z3.And([code != k for k in labels.keys()]), "label missing although the code is in the table")
            else:
                ks = [k for k, v in labels.items() if v == got]
                ex.check(z3.Or([code == k for k in ks]) if ks else z3.BoolVal(False), "label does not match the code")

    # -- concrete ------------------------------------------------------------------------------------------
    def concrete(self, inputs):
        R = real()
        cmd, s, nbytes = rebuild(R, self.ent)
        payload = bytes(inputs.get(f"B[{i}]", 0) for i in range(nbytes))
        tab = self.ent.get("table")
        if tab:
            w = WIDTH.get(cls_name(s), 0)
            pos = position(cmd, s, R)
            fill = table_filler(tab, nbytes)
            payload = fill[:pos] + payload[pos:pos + w] + fill[pos + w:]
        pub = self.ent.get("public")
        if pub and nbytes == 86:
            w = WIDTH.get(cls_name(s), 0)
            pos = position(cmd, s, R)
            fill = table_filler("mix", nbytes)
            payload = fill[:pos] + payload[pos:pos + w] + fill[pos + w:]
        resp = block_response(R, cmd, payload)
        reads = []
        orig_read = resp._bytes.read

        class _Spy:
            def __init__(self, bio):
                self.bio = bio

            def seek(self, p):
                return self.bio.seek(p)

            def read(self, n):
                p = self.bio.tell()
                d = self.bio.read(n)
                reads.append((p, n, len(d)))
                return d
        resp._bytes = _Spy(resp._bytes)
        viol = None
        where = f"{self.ent['cfg']['family']}:{self.ent['first']}+{self.ent['count']}:{s.id_}({cls_name(s)}@{s.offset})"
        try:
            if pub:
                where += "[read_setting]"
                got = self._public_read(R, None, payload)
                outcome = "value" if got is not None else "none"
                if nbytes == 86 and cls_name(s) in ("Timestamp", "EcoModeV1", "EcoModeV2", "Schedule", "PeakShavingMode"):
                    outcome = "ValueError" if got is None else "value"
            elif tab:
                inv_cls, sensors = LAST_TABLE[R.prefix]
                res = inv_cls._map_response(resp, sensors)
                ids = [x.id_ for x in sensors]
                if s.id_ not in res:
                    return {"outcome": "missing", "violation": f"{where}: id missing from the table result (table level)",
                            "observed": f"filler={tab} keys={len(res)}"}
                if ids.count(s.id_) > 1 and ids.index(s.id_) == self.ent["sensor"]:
                    return {"outcome": "shadowed", "violation": None, "observed": "id defined twice"}
                got = res[s.id_]
                outcome = "value" if got is not None else "none"
                if cls_name(s) in ("Timestamp", "EcoModeV1", "EcoModeV2", "Schedule", "PeakShavingMode"):
                    outcome = "ValueError" if got is None else "value"
            else:
                got = s.read_value(resp) if self._single() else s.read(resp)
                outcome = "value" if got is not None else "none"
        except ValueError as e:
            got, outcome = e, "ValueError"
        except Exception as e:  # noqa: BLE001
            got, outcome = e, f"raised {type(e).__name__}"
            viol = f"{self.ent['cfg']['family']}:{s.id_}({cls_name(s)}): read raised {type(e).__name__}"
        if tab:
            where += "[table]"
        if self.mode == "C14" and viol is None:
            short = [r for r in reads if r[2] < r[1]]
            if short:
                viol = f"{where}: read past the end of the fetched window"
        if self.mode == "C12" and viol is None:
            viol = self._concrete_reference(R, cmd, s, payload, nbytes, got, outcome, where)
        if self.mode == "C11" and viol is None and outcome == "value" and not tab and not pub:
            cls = cls_name(s)
            w = WIDTH.get(cls)
            pos = position(cmd, s, R)
            if w is not None and pos >= 0 and pos + w <= nbytes:
                ref = reference(cls, s, [z3.IntVal(x) for x in payload[pos:pos + w]])
                if ref is not None and ref[0] in ("group", "datetime") and not z3.is_true(z3.simplify(ref[1])):
                    viol = f"{where}: uninterpretable registers reported as a value"
        return {"outcome": outcome, "violation": viol, "observed": f"{where} payload={payload.hex()[:80]}.. -> {got!r} reads={reads[:4]}"}

    def _concrete_reference(self, R, cmd, s, payload, nbytes, got, outcome, where):
        import datetime
        import struct
        cls = cls_name(s)
        w = WIDTH.get(cls)
        if w is None:
            return None
        pos = position(cmd, s, R)
        if pos < 0 or pos + w > nbytes:
            if self.ent["kind"] == "runtime" and outcome == "value":
                return f"{where}: value reported from registers outside the block that was read"
            return None
        b = payload[pos:pos + w]
        U = lambda x: int.from_bytes(x, "big")  # noqa: E731
        S = lambda x: int.from_bytes(x, "big", signed=True)  # noqa: E731
        exp = "?"
        if cls in ("Voltage", "Current"):
            exp = 0 if U(b) == 0xFFFF else U(b) / 10
        elif cls == "CellVoltage":
            exp = (0 if U(b) == 0xFFFF else U(b) / 10) / 100
        elif cls == "CurrentS":
            exp = S(b) / 10
        elif cls == "Frequency":
            exp = S(b) / 100
        elif cls in ("Power", "Power4"):
            exp = None if U(b) == 2 ** (8 * w) - 1 else U(b)
        elif cls in ("PowerS", "Apparent", "Reactive", "IntegerS", "Power4S", "Apparent4", "Reactive4", "LongS"):
            exp = S(b)
        elif cls in ("Energy", "Energy4"):
            exp = None if U(b) == 2 ** (8 * w) - 1 else U(b) / 10
        elif cls == "Energy4W":
            exp = None if U(b) == 2 ** 32 - 1 else U(b) / 1000
        elif cls == "Energy8":
            exp = None if U(b) == 2 ** 64 - 1 else U(b) / 100
        elif cls == "Temp":
            exp = None if S(b) in (-1, 32767) else S(b) / 10
        elif cls in ("Byte", "ByteH"):
            exp = S(b[:1])
        elif cls == "ByteL":
            exp = S(b[1:2])
        elif cls in ("Integer", "Long"):
            exp = 0 if U(b) == 2 ** (8 * w) - 1 else U(b)
        elif cls == "Decimal":
            exp = S(b) / s.scale
        elif cls == "Float":
            v = struct.unpack(">f", b)[0]
            try:
                exp = round(v / s.scale, 3)
            except (ValueError, OverflowError) as e:
                exp = e
            if exp != exp:
                return None  # NaN compares unequal to itself
        elif cls == "Timestamp":
            try:
                exp = datetime.datetime(2000 + b[0], b[1], b[2], b[3], b[4], b[5])
            except ValueError:
                exp = "ValueError"
            if (outcome == "ValueError") != (exp == "ValueError") or (outcome != "ValueError" and got != exp):
                return f"{where}: timestamp differs from its registers"
            return None
        elif cls in ("EcoModeV1", "EcoModeV2", "Schedule", "PeakShavingMode"):
            if cls == "EcoModeV1":
                f = {"start_h": S(b[0:1]), "start_m": S(b[1:2]), "end_h": S(b[2:3]), "end_m": S(b[3:4]),
                     "power": S(b[4:6]), "on_off": S(b[6:7]), "day_bits": S(b[7:8])}
                hr = lambda h: 0 <= h <= 23 or h == 48  # noqa: E731
                mn = lambda m: 0 <= m <= 59  # noqa: E731
                valid = hr(f["start_h"]) and mn(f["start_m"]) and hr(f["end_h"]) and mn(f["end_m"]) and \
                    -100 <= f["power"] <= 100 and f["on_off"] in (0, -1)
            else:
                f = {"start_h": S(b[0:1]), "start_m": S(b[1:2]), "end_h": S(b[2:3]), "end_m": S(b[3:4]),
                     "on_off": S(b[4:5]), "day_bits": S(b[5:6]), "power": S(b[6:8]), "soc": S(b[8:10]),
                     "month_bits": S(b[10:12])}
                hr = lambda h: 0 <= h <= 23 or h in (48, -1)  # noqa: E731
                mn = lambda m: 0 <= m <= 59 or m == -1  # noqa: E731
                oo = f["on_off"]
                valid = hr(f["start_h"]) and mn(f["start_m"]) and hr(f["end_h"]) and mn(f["end_m"]) and \
                    (-7 <= oo <= 6 or oo == 85) and (oo not in (0, -1) or -100 <= f["power"] <= 100) and \
                    (oo not in (6, -7) or -1000 <= f["power"] <= 1000) and 0 <= f["soc"] <= 100
            if (outcome == "ValueError") == valid:
                return f"{where}: eco-mode/schedule group validity differs from its registers"
            if valid and any(getattr(got, k) != v for k, v in f.items()):
                return f"{where}: eco-mode/schedule group fields differ from its registers"
            return None
        elif cls in ("Enum", "EnumH"):
            exp = s._labels.get(S(b[:1]))
        elif cls == "EnumL":
            exp = s._labels.get(S(b[1:2]))
        elif cls == "Enum2":
            exp = s._labels.get(0 if U(b) == 0xFFFF else U(b))
        else:
            return None
        if outcome == "ValueError" or got != exp:
            return f"{where}: value differs from the documented reading of its own registers"
        return None
