"""Lemma K-FP: encoding the multiple k/scale of a scaled setting's resolution gives back k.

The real encode function (encode_voltage / encode_current / encode_current_signed / Decimal.encode_value) is
*executed* on an IEEE-754 binary64 proxy whose value is RNE(k / scale) for a symbolic integer k; the arithmetic it
performs (float(), * scale, int()) is recorded as z3 floating point terms, and z3 (QF_FP/BV) must answer unsat to
"encoded integer != k" over the whole 16 bit range."""
from __future__ import annotations

import time

import z3

from vf.common import shimmed, real

RNE = z3.RNE()
F64 = z3.Float64()


class SFloat64:
    __slots__ = ("e",)

    def __init__(self, e):
        self.e = e

    def __symx_float__(self):
        return self

    def _lift(self, o):
        if isinstance(o, SFloat64):
            return o.e
        if isinstance(o, (int, float)):
            return z3.FPVal(float(o), F64)
        raise TypeError(type(o).__name__)

    def __mul__(self, o):
        return SFloat64(z3.fpMul(RNE, self.e, self._lift(o)))

    __rmul__ = __mul__

    def __truediv__(self, o):
        return SFloat64(z3.fpDiv(RNE, self.e, self._lift(o)))

    def __add__(self, o):
        return SFloat64(z3.fpAdd(RNE, self.e, self._lift(o)))

    __radd__ = __add__

    def __symx_int__(self):
        """int(x): truncation toward zero"""
        return SFpInt(z3.fpToSBV(z3.RTZ(), self.e, z3.BitVecSort(64)))

    def __symx_round__(self, ndigits=None):
        if ndigits is not None:
            raise NotImplementedError("round(x, n) on a binary64 proxy")
        return SFpInt(z3.fpToSBV(z3.RNE(), z3.fpRoundToIntegral(z3.RNE(), self.e), z3.BitVecSort(64)))


class SFpInt:
    """64-bit integer result of int(float proxy)"""
    __slots__ = ("e",)

    def __init__(self, e):
        self.e = e

    def __symx_int__(self):
        return self

    def __symx_to_bytes__(self, length, byteorder, signed):
        return FpBytes(self.e, length, byteorder, signed)


class FpBytes:
    def __init__(self, bv, length, byteorder, signed):
        self.bv, self.length, self.byteorder, self.signed = bv, length, byteorder, signed


CASES = [
    # name, how to get the encoder from the sensor module, scale, signed, k range
    ("encode_voltage", lambda M: M.sensor.encode_voltage, 10, False),
    ("encode_current", lambda M: M.sensor.encode_current, 10, False),
    ("encode_current_signed", lambda M: M.sensor.encode_current_signed, 10, True),
    ("Decimal(scale=10).encode_value", lambda M: M.sensor.Decimal("d", 0, 10, "d").encode_value, 10, True),
    ("Decimal(scale=100).encode_value", lambda M: M.sensor.Decimal("d", 0, 100, "d").encode_value, 100, True),
    ("Decimal(scale=1000).encode_value", lambda M: M.sensor.Decimal("d", 0, 1000, "d").encode_value, 1000, True),
]


def live_scales(M):
    """(encoder name) actually used by a setting of some family: only those are claimed"""
    used = set()
    for cls_, attrs in ((M.et.ET, ("_ET__all_settings", "_ET__settings_arm_fw_19", "_ET__settings_arm_fw_22")),
                        (M.dt.DT, ("_DT__all_settings", "_DT__settings_single_phase", "_DT__settings_three_phase")),
                        (M.es.ES, ("_ES__all_settings", "_ES__settings_arm_fw_14"))):
        for a in attrs:
            for s in getattr(cls_, a, ()):
                n = type(s).__name__
                if n == "Voltage":
                    used.add("encode_voltage")
                elif n == "Current":
                    used.add("encode_current")
                elif n == "CurrentS":
                    used.add("encode_current_signed")
                elif n == "Decimal":
                    used.add(f"Decimal(scale={s.scale}).encode_value")
    return used


def tasks(tier):
    return [{"name": f"fp-{i}", "fn": "fp", "case": i, "cross": tier == "thorough"} for i in range(len(CASES))]


def run_case(i, timeout_s=1200, cross=False):
    G = shimmed()
    name, getenc, scale, signed = CASES[i]
    ent = {"name": f"K-FP {name}", "queries": 1, "obligations": 1, "discharged": 0,
           "bounds": {"k": "-32768..32767" if signed else "0..65535", "scale": scale, "format": "binary64 RNE"}}
    if name not in live_scales(G):
        ent.update({"queries": 0, "obligations": 0, "result": "not used by any setting", "solver_s": 0.0,
                    "sample": f"{name}: no setting uses this encoder"})
        return ent
    t0 = time.perf_counter()
    k = z3.BitVec("k", 32)
    s = z3.Solver()
    s.set("timeout", int(timeout_s * 1000))
    if signed:
        s.add(k >= -32768, k <= 32767)
    else:
        s.add(k >= 0, k <= 65535)
    x = SFloat64(z3.fpDiv(RNE, z3.fpSignedToFP(RNE, k, F64), z3.FPVal(float(scale), F64)))  # the float k/scale
    try:
        out = getenc(G)(x)
    except Exception as e:  # noqa: BLE001
        ent.update({"inconclusive": f"encoder could not be traced: {type(e).__name__}: {e}", "solver_s": 0.0})
        return ent
    if not isinstance(out, FpBytes):
        ent.update({"inconclusive": f"encoder returned {type(out).__name__}", "solver_s": 0.0})
        return ent
    want = z3.SignExt(32, k)
    lo, hi = (-(1 << (8 * out.length - 1)), (1 << (8 * out.length - 1)) - 1) if out.signed else (0, (1 << (8 * out.length)) - 1)
    bad = z3.Or(out.bv != want, out.bv < lo, out.bv > hi, out.length != 2, out.byteorder != "big",
                out.signed != signed)
    s.add(bad)
    r = s.check()
    ent["solver_s"] = round(time.perf_counter() - t0, 2)
    ent["result"] = str(r)
    ent["sample"] = f"forall k: {name}(float(k/{scale})) == int16/uint16 bytes of k  -> {r}"
    if r == z3.unsat:
        ent["discharged"] = 1
        if cross:
            from vf.smt2 import cvc5_recheck
            second = cvc5_recheck(s, "QF_BVFP", 600)
            ent["second_solver"] = second
            if second["result"] not in ("unsat", "unavailable"):
                ent["discharged"] = 0
                ent["inconclusive"] = f"cvc5 answered {second['result']} where z3 answered unsat"
    elif r == z3.sat:
        kv = s.model().eval(k, model_completion=True).as_signed_long()
        rep = replay({"inputs": {"k": kv}, "params": {"case": i}})
        ent["violations_list"] = [{"harness": "lemma:K-FP", "params": {"case": i}, "label": "scaled value does not encode to its multiple",
                                   "detail": name, "inputs": {"k": kv}, "reproduced": bool(rep["violation"]),
                                   "key": rep["violation"], "observed": rep["observed"]}]
    else:
        ent["inconclusive"] = f"solver answered {r} within {timeout_s}s"
    return ent


def run_task(task):
    return {"lemmas": [run_case(task["case"], cross=task.get("cross", False))]}


def replay(case):
    R = real()
    i = case["params"]["case"]
    name, getenc, scale, signed = CASES[i]
    k = case["inputs"]["k"]
    v = k / scale
    try:
        b = getenc(R)(v)
        got = int.from_bytes(b, "big", signed=signed)
    except Exception as e:  # noqa: BLE001
        return {"outcome": "raised", "violation": f"{name}: raised {type(e).__name__} for a multiple of the resolution",
                "observed": f"k={k} v={v!r}: {e}"}
    return {"outcome": "ok", "violation": None if got == k else f"{name}: multiples of 1/{scale} are truncated to the next lower step",
            "observed": f"k={k} value={v!r} encoded={got}"}
