"""C15 — read_runtime_data() keys equal sensors() for every model and capability set."""
from __future__ import annotations

import z3

from symx.core import Explorer, SBool, sym_int, sym_bool, cur
from vf.common import Harness, shimmed, real, explore
from . import models
from .fakeinv import const_crc, drive

PROP = "C15"

FLAGS = {"ET": ("battery", "battery2", "meter_ext2", "meter_ext", "mppt", "eco_v2", "peak_shaving"),
         "DT": ("dt_meter", "dt_meter_info")}


# registers that only the named optional block delivers (a sensor at such an address has no source once the block is refused)
REGIONS = {"battery": (37000, 37125), "battery2": (39000, 39125), "mppt": (35301, 35426), "meter_ext2": (36058, 36125),
           "meter_ext": (36045, 36058), "dt_meter": (30195, 30320)}


class KeysHarness(Harness):
    def __init__(self, cfg):
        self.cfg = cfg
        self.name = "keys"
        self.params = {"cfg": cfg}

    def _run(self, M, flag, batt, crc):
        fam = self.cfg["family"]
        blocks = models.ET_BLOCKS if fam == "ET" else models.DT_BLOCKS
        call = [0]
        refused_seen = set()

        def refuse(addr, count):
            for n, (a, c) in blocks.items():
                if a == addr and (c is None or c == count):
                    r = flag(n)
                    if r:
                        refused_seen.add(n)
                    return r
            return False

        def default(addr):
            if addr == 35184:
                return batt(call[0])
            return 1
        inv, fake = models.make(M, dict(self.cfg, refuse=[]), default=default, refuse=refuse, crc=crc,
                                transport=self.cfg.get("transport", "udp"))
        results = []
        for i in range(3):
            call[0] = i
            fake.regs.pop(35184, None)
            try:
                res = drive(inv.read_runtime_data())
                present = None
                if fam == "ET":
                    # supported blocks are all present: the running data of this call announce a battery and the
                    # battery block is served -> battery sensors are reported by this very call
                    bm = res.get("battery_mode")
                    announced = bm is not None and bool(bm != 0)
                    if announced and not flag("battery"):
                        present = any(37000 <= s.offset < 37125 and s.id_ in res for s in inv.sensors())
                results.append(("ok", set(res.keys()), {s.id_ for s in inv.sensors()},
                                sorted((s.id_, s.offset) for s in inv.sensors()), sorted(refused_seen), present))
            except M.exceptions.RequestRejectedException as e:
                results.append(("rejected", str(getattr(e, "message", "")), None))
        return results

    def _verdict(self, results):
        for i, r in enumerate(results):
            if r[0] == "rejected":
                if i > 0:
                    return f"call {i + 1} still fails with RequestRejectedException"
                if r[1] != "ILLEGAL DATA ADDRESS":
                    return f"call 1 failed with another rejection ({r[1]})"
            elif r[1] != r[2]:
                d = sorted(r[1] ^ r[2])
                return f"call {i + 1}: keys differ from sensors(): {d[:6]}"
            else:
                # refused blocks disappear: no offered sensor lives at a register that only a refused block delivers
                if len(r) > 5 and r[5] is False:
                    return f"call {i + 1}: battery announced and served but its sensors are still offered: []"
                for n in r[4]:
                    lo, hi = REGIONS.get(n, (0, 0))
                    left = [sid for sid, off in r[3] if lo <= off < hi and sid in r[1]]
                    if left:
                        return f"call {i + 1}: refused block {n} still offered: {left[:4]}"
        return None

    def symbolic(self, ex):
        G = shimmed()
        G.modbus._modbus_checksum = const_crc
        G.sensor.decode_bitmap, G.sensor.decode_day_of_week, G.sensor.decode_months = G.orig_bitmap, *G.orig_sensor_fns
        cache = {}

        def flag(n):
            if n not in cache:
                cache[n] = bool(sym_bool(f"refuse_{n}"))
            return cache[n]

        def batt(i):
            return sym_int(f"battery_mode_{i}", 0, 1)
        try:
            results = self._run(G, flag, batt, const_crc)
        except Exception as e:  # noqa: BLE001
            ex.fail("read_runtime_data raised something other than RequestRejectedException", f"{type(e).__name__}: {e}")
        v = self._verdict(results)
        if v:
            ex.fail("keys of read_runtime_data() differ from sensors() / no success by the second call", v)
        return "/".join(r[0] for r in results)

    def concrete(self, inputs):
        R = real()
        tag = f"{self.cfg['family']}:{self.cfg['serial']}:{self.cfg.get('rated_power')}" + (":tcp" if self.cfg.get("transport") == "tcp" else "")
        try:
            results = self._run(R, lambda n: bool(inputs.get(f"refuse_{n}", False)),
                                lambda i: inputs.get(f"battery_mode_{i}", 0), None)
        except Exception as e:  # noqa: BLE001
            return {"outcome": "raised", "violation": f"{tag}: read_runtime_data raised {type(e).__name__}", "observed": f"{type(e).__name__}: {e}"}
        v = self._verdict(results)
        refused = sorted(k[7:] for k, val in inputs.items() if k.startswith("refuse_") and val)
        kind = None
        if v:
            kind = "keys differ from sensors()" if "keys differ" in v else "a supported block is missing" if "battery announced" in v \
                else "a refused block is still offered" if "still offered" in v \
                else "no success by the second call"
        return {"outcome": "/".join(r[0] for r in results), "violation": f"{tag}: {kind}" if v else None,
                "observed": f"refused={refused} battery={[inputs.get(f'battery_mode_{i}', 0) for i in range(3)]} -> {v}"}


def tasks(tier, seed):
    R = real()
    cfgs = []
    for s in models.et_serials(R, all_tags=(tier == "thorough")):
        for p in models.POWERS:
            cfgs.append({"family": "ET", "serial": s, "rated_power": p})
    for s in models.dt_serials(R, all_tags=(tier == "thorough")):
        cfgs.append({"family": "DT", "serial": s})
    # the same over Modbus/TCP (other command classes, other validator, 9-byte exception frames)
    cfgs.append({"family": "ET", "serial": "9010KETU218W0001", "rated_power": 10000, "transport": "tcp"})
    cfgs.append({"family": "ET", "serial": "9025KETT218W0001", "rated_power": 25000, "transport": "tcp"})
    cfgs.append({"family": "DT", "serial": "9010KDTU218W0001", "transport": "tcp"})
    n = 32 if tier == "quick" else 64
    return [{"name": f"keys-{i}", "items": cfgs[i::n]} for i in range(n) if cfgs[i::n]]


def run_task(task):
    G = shimmed()
    if not hasattr(G, "orig_sensor_fns"):
        G.orig_sensor_fns = (G.sensor.decode_day_of_week, G.sensor.decode_months)
        G.orig_bitmap = G.sensor.decode_bitmap
    out = []
    for cfg in task["items"]:
        out.append(explore(KeysHarness(cfg), max_paths=5000, max_seconds=900, witnesses_per_outcome=1, trace=len(out) < 1))
    return {"harnesses": out}


def replay(case):
    return KeysHarness(case["params"]["cfg"]).concrete(case["inputs"])


def evidence_meta(tier):
    return {
        "level": "model_checking",
        "rule": "one state = one path of read_device_info(); 3 x read_runtime_data() on the simulated inverter; the refused "
                "blocks are symbolic booleans consulted lazily by the simulated inverter (unreachable combinations cost "
                "nothing), battery_mode is symbolic per call",
        "bounds": {"serials": "one per class of the model predicates x 3 prefixes (quick) / every tag (thorough)",
                   "rated_power": list(models.POWERS), "refused_blocks": "all subsets of " + ", ".join(FLAGS["ET"][:5]) + " / DT meter",
                   "battery_mode": "zero / non-zero, independently for each of the 3 calls", "calls": 3},
        "outside": ["register contents other than battery_mode are concrete (their decoding is C11's subject)",
                    "lost requests (C14 enumerates one lost request per position)"],
        "assumptions": ["a refused block is refused consistently for the whole history (firmware capability)"],
    }
