"""C19 — operation mode, export limit and DoD setters round-trip with their getters."""
from __future__ import annotations

import z3

from symx.core import Explorer, SInt, sym_int, to_z3, concrete_of
from symx.sbytes import SBytes
from vf.common import Harness, shimmed, real, explore
from . import models, sensors as S
from .fakeinv import const_crc, drive

PROP = "C19"

SCHEDULE_TYPES = (0, 1, 2, 3, 4, 5, 6, 85)


# ---------------------------------------------------------------------------------------------------------------
# encoder level
# ---------------------------------------------------------------------------------------------------------------
class Encoder(Harness):
    """decode(encode_charge/discharge/off(p, soc)) for every schedule type, p in 1..100, soc in 0..100 (symbolic)"""

    def __init__(self, cls, stype, what):
        self.cls, self.stype, self.what = cls, stype, what
        self.name = "encoder"
        self.params = {"cls": cls, "schedule_type": stype, "what": what}

    def _mk(self, M):
        if self.cls == "EcoModeV1":
            return M.sensor.EcoModeV1("eco_mode_1", 47515, "g"), M.sensor.EcoModeV1("eco_mode_1", 47515, "g")
        t = M.sensor.ScheduleType(self.stype)
        return M.sensor.Schedule("eco_mode_1", 47547, "g", t), M.sensor.Schedule("eco_mode_1", 47547, "g", t)

    def _run(self, M, p, soc):
        enc, dec = self._mk(M)
        if self.what == "charge":
            b = enc.encode_charge(p, soc)
        elif self.what == "discharge":
            b = enc.encode_discharge(p)
        else:
            b = enc.encode_off()
        got = dec.read_value(M.protocol.ProtocolResponse(b, None))
        return b, got

    def symbolic(self, ex):
        G = shimmed()
        G.sensor.decode_day_of_week, G.sensor.decode_months = G.orig_sensor_fns
        p = sym_int("p", 1, 100)
        soc = sym_int("soc", 0, 100)
        try:
            b, got = self._run(G, p, soc)
        except Exception as e:  # noqa: BLE001
            ex.fail("encoded group does not decode", f"{type(e).__name__}: {e}")
        n = 8 if self.cls == "EcoModeV1" else 12
        ex.check(len(b) == n, "encoded group has the wrong length")
        eco_types = self.cls == "EcoModeV1" or self.stype in (0, 6)
        if self.what == "charge":
            if not got.is_eco_charge_mode() or got.is_eco_discharge_mode():
                ex.fail("encode_charge does not decode as the 24/7 charge group")
            if eco_types:
                ex.check(to_z3(got.get_power()) == -p.e, "charge power does not round-trip")
            if self.cls != "EcoModeV1":
                ex.check(to_z3(got.soc) == soc.e, "SoC does not round-trip")
        elif self.what == "discharge":
            if not got.is_eco_discharge_mode() or got.is_eco_charge_mode():
                ex.fail("encode_discharge does not decode as the 24/7 discharge group")
            if eco_types:
                ex.check(to_z3(got.get_power()) == p.e, "discharge power does not round-trip")
        else:
            if got.is_eco_charge_mode() or got.is_eco_discharge_mode():
                ex.fail("encode_off decodes as an active 24/7 group")
            ex.check(to_z3(got.on_off) >= 0, "encode_off decodes as switched on")
        return "ok"

    def concrete(self, inputs):
        R = real()
        p, soc = inputs.get("p", 1), inputs.get("soc", 0)
        tag = f"{self.cls}[type {self.stype}].encode_{self.what}"
        try:
            b, got = self._run(R, p, soc)
        except Exception as e:  # noqa: BLE001
            return {"outcome": "raised", "violation": f"{tag}: encoded group does not decode ({type(e).__name__})", "observed": f"p={p} soc={soc}: {e}"}
        eco_types = self.cls == "EcoModeV1" or self.stype in (0, 6)
        ok = len(b) == (8 if self.cls == "EcoModeV1" else 12)
        if self.what == "charge":
            ok = ok and got.is_eco_charge_mode() and not got.is_eco_discharge_mode() and (not eco_types or got.get_power() == -p) \
                and (self.cls == "EcoModeV1" or got.soc == soc)
        elif self.what == "discharge":
            ok = ok and got.is_eco_discharge_mode() and not got.is_eco_charge_mode() and (not eco_types or got.get_power() == p)
        else:
            ok = ok and not got.is_eco_charge_mode() and not got.is_eco_discharge_mode() and got.on_off >= 0
        return {"outcome": "ok", "violation": None if ok else f"{tag}: does not round-trip",
                "observed": f"p={p} soc={soc} bytes={bytes(b).hex()} decoded={got}"}


# ---------------------------------------------------------------------------------------------------------------
# end to end through the public API on the simulated inverter
# ---------------------------------------------------------------------------------------------------------------
E2E_CFGS = [
    {"family": "ET", "serial": "9010KETU218W0001", "rated_power": 10000, "refuse": ["eco_v2", "peak_shaving"], "label": "ET eco v1"},
    {"family": "ET", "serial": "9010KETU218W0001", "rated_power": 10000, "refuse": [], "label": "ET eco v2"},
    {"family": "ET", "serial": "9010KETT218W0001", "rated_power": 10000, "refuse": [], "label": "ET 745"},
    {"family": "ET", "serial": "9010KETU218W0001", "rated_power": 10000, "refuse": ["peak_shaving"], "label": "ET v2 no peak shaving"},
    {"family": "ES", "serial": "95048ESU218W0001", "firmware": "1010B", "label": "ES eco v1"},
    {"family": "ES", "serial": "95048ESU218W0001", "firmware": "2323G", "label": "ES eco v2"},
]


def eco_regs(inv):
    """register ranges of the four eco groups and their switch registers, from the live settings"""
    out = {}
    for n in (1, 2, 3, 4):
        g = inv._settings[f"eco_mode_{n}"]
        sw = inv._settings[f"eco_mode_{n}_switch"]
        out[n] = (g.offset, (g.size_ + 1) // 2, sw.offset)
    return out


class ModeRoundTrip(Harness):
    def __init__(self, cfg, mode, tier="quick"):
        self.cfg, self.mode, self.tier = cfg, mode, tier
        self.name = "mode"
        self.params = {"cfg": cfg, "mode": mode, "tier": tier}

    def _run(self, M, default, crc, p, soc):
        cfg = {k: v for k, v in self.cfg.items() if k != "label"}
        inv, fake = models.make(M, cfg, crc=crc)
        info = range(0x88b8, 0x88b8 + 0x21)
        fake.regs = {a: v for a, v in fake.regs.items() if a in info}
        fake.default = lambda a: 2 if a == 47000 else default(a)     # work mode before the call: BACKUP (concrete)
        if cfg["family"] == "ES":
            fake.es_settings = [0] * 86
        regs = eco_regs(inv)
        modes = drive(inv.get_operation_modes(True))
        m = M.inverter.OperationMode(self.mode)
        if m not in modes:
            return ("not offered", None, None, None, None)
        before = {n: [fake.get(a) for a in range(r[0], r[0] + r[1])] for n, r in regs.items()}
        self.assume_valid_prior(M, inv, before[1])
        if self.mode not in (98, 99) or cfg["family"] == "ES":
            # a getter before the setter (whatever it caches must not survive the setter)
            try:
                drive(inv.get_operation_mode())
            except (ValueError, M.exceptions.InverterError):
                pass
        fake.log.clear()
        try:
            drive(inv.set_operation_mode(m, p, soc))
        except (ValueError, M.exceptions.InverterError) as e:
            return ("set failed", None, None, None, None)   # the property speaks about calls that succeed
        got = drive(inv.get_operation_mode())
        g1 = None
        if self.mode in (98, 99):
            g1 = drive(inv.read_setting("eco_mode_1"))
        after = {n: [fake.get(a) for a in range(r[0], r[0] + r[1])] for n, r in regs.items()}
        return ("ok", got, g1, (before, after, regs), inv)

    def assume_valid_prior(self, M, inv, regs1):
        """prior content of eco group 1: any *valid* group of any schedule type (property: 'all schedule types')"""
        if M.prefix != "goodwe":
            return
        from symx.core import cur
        g = inv._settings["eco_mode_1"]
        b = []
        for r in regs1:
            b += [to_z3(r) / 256, to_z3(r) % 256]
        kind, valid, fields = S.reference(S.cls_name(g), g, b)
        if self.mode in (98, 99):
            # the group is overwritten by the setter: any previous content counts, also an undecodable one (time
            # fields stay valid so that the path count stays small)
            cur().assume(z3.And(fields["start_h"] >= 0, fields["start_h"] <= 23, fields["start_m"] >= 0, fields["start_m"] <= 59,
                                fields["end_h"] >= 0, fields["end_h"] <= 23, fields["end_m"] >= 0, fields["end_m"] <= 59))
        else:
            cur().assume(valid)
        if self.tier == "quick":
            # quick: the time window of the prior group is fixed (00:00-23:59); type, power, SoC, days, months symbolic
            cur().assume(z3.And(fields["start_h"] == 0, fields["start_m"] == 0, fields["end_h"] == 23, fields["end_m"] == 59))

    def symbolic(self, ex):
        G = shimmed()
        G.modbus._modbus_checksum = const_crc
        G.sensor.decode_day_of_week = lambda d: "<days>"
        G.sensor.decode_months = lambda d: "<months>"
        p = sym_int("p", 1, 100)
        soc = sym_int("soc", 0, 100)
        try:
            st, got, g1, regs, inv = self._run(G, lambda a: sym_int(f"r{a}", 0, 0xFFFF), const_crc, p, soc)
        except Exception as e:  # noqa: BLE001
            ex.fail("set/get_operation_mode raised", f"{type(e).__name__}: {e}")
        if st != "ok":
            return st
        if got is None or int(got) != self.mode:
            ex.fail("get_operation_mode does not return the mode that was set", f"set={self.mode} got={got!r}")
        if self.mode in (98, 99):
            sign = -1 if self.mode == 98 else 1
            ex.check(to_z3(g1.get_power()) == sign * p.e, "eco group 1 does not decode to the requested power")
            if hasattr(g1, "month_bits") and self.mode == 98:
                ex.check(to_z3(g1.soc) == soc.e, "eco group 1 does not decode to the requested SoC")
            before, after, r = regs
            for n in (2, 3, 4):
                off, cnt, sw = r[n]
                # the on/off byte is the high byte of the 4th register of a 4-register (v1) group and of the 3rd
                # register of a 6-register (v2) group — not taken from the library's eco_mode_N_switch definition
                i = 3 if cnt == 4 else 2
                conj = [to_z3(after[n][i]) / 256 == 0, to_z3(after[n][i]) % 256 == to_z3(before[n][i]) % 256]
                conj += [to_z3(after[n][j]) == to_z3(before[n][j]) for j in range(cnt) if j != i]
                ex.check(z3.And(conj), f"eco group {n} is not switched off (or other bytes of it changed)")
        return "roundtrip"

    def concrete(self, inputs):
        R = real()
        tag = f"{self.cfg['label']}: mode {self.mode}"
        p, soc = inputs.get("p", 1), inputs.get("soc", 0)
        try:
            st, got, g1, regs, inv = self._run(R, lambda a: inputs.get(f"r{a}", 0), None, p, soc)
        except Exception as e:  # noqa: BLE001
            return {"outcome": "raised", "violation": f"{tag}: set/get_operation_mode raised {type(e).__name__}", "observed": f"{type(e).__name__}: {e}"}
        if st != "ok":
            return {"outcome": st, "violation": None, "observed": st}
        obs = f"p={p} soc={soc} prior={ {k: v for k, v in inputs.items() if k.startswith('r')} } got={got!r} group1={g1}"
        if got is None or int(got) != self.mode:
            sub = ""
            if self.mode == 3 and got is not None and int(got) in (98, 99):
                sub = " (eco group 1 still holds a 24/7 group)"
            return {"outcome": "roundtrip", "violation": f"{tag}: get_operation_mode returns another mode{sub}", "observed": obs}
        if self.mode in (98, 99):
            sign = -1 if self.mode == 98 else 1
            if g1.get_power() != sign * p or (hasattr(g1, "month_bits") and self.mode == 98 and g1.soc != soc):
                return {"outcome": "roundtrip", "violation": f"{tag}: eco group 1 does not decode to the requested power/SoC", "observed": obs}
            before, after, r = regs
            for n in (2, 3, 4):
                off, cnt, sw = r[n]
                # the on/off byte is the high byte of the 4th register of a 4-register (v1) group and of the 3rd
                # register of a 6-register (v2) group — not taken from the library's eco_mode_N_switch definition
                i = 3 if cnt == 4 else 2
                if after[n][i] >> 8 != 0 or after[n][i] & 255 != before[n][i] & 255 or \
                        any(after[n][j] != before[n][j] for j in range(cnt) if j != i):
                    return {"outcome": "roundtrip", "violation": f"{tag}: eco group {n} not switched off cleanly", "observed": obs}
        return {"outcome": "roundtrip", "violation": None, "observed": obs}


class ScalarRoundTrip(Harness):
    """set_grid_export_limit / set_ongrid_battery_dod followed by their getters"""

    def __init__(self, cfg, what):
        self.cfg, self.what = cfg, what
        self.name = "scalar"
        self.params = {"cfg": cfg, "what": what}

    def domain(self, M, inv):
        if self.what == "dod":
            return 0, 100
        st = inv._settings.get("grid_export_limit")
        if st is not None and S.cls_name(st) == "Long":
            return 0, 2 ** 32 - 2
        return 0, 0xFFFE  # 0xFFFF is the all-ones sentinel (recorded under C17)

    def _run(self, M, default, crc, mkx):
        cfg = {k: v for k, v in self.cfg.items() if k not in ("label", "transport")}
        inv, fake = models.make(M, cfg, crc=crc, transport=self.cfg.get("transport", "udp"))
        info = range(0x88b8, 0x88b8 + 0x21) if cfg["family"] == "ET" else range(0x7531, 0x7531 + 0x28)
        fake.regs = {a: v for a, v in fake.regs.items() if a in info}
        fake.default = default
        if cfg["family"] == "ES":
            # read_settings_data() decodes the whole table on one path: the block is concrete apart from what the
            # setter writes (prior content of the written bytes is overwritten completely)
            fake.es_settings = [(i * 29 + 3) % 200 for i in range(86)]
        lo, hi = self.domain(M, inv)
        # getter first, then two set/get rounds on the same object (state kept between calls must not show)
        getter = inv.get_ongrid_battery_dod if self.what == "dod" else inv.get_grid_export_limit
        setter = inv.set_ongrid_battery_dod if self.what == "dod" else inv.set_grid_export_limit
        try:
            drive(getter())
        except (ValueError, M.exceptions.InverterError):
            pass
        out = []
        for rnd in ("", "_2"):
            x = mkx(lo, hi, rnd)
            drive(setter(x))
            out.append((x, drive(getter())))
        return out

    def symbolic(self, ex):
        G = shimmed()
        G.modbus._modbus_checksum = const_crc

        def default(a):
            return sym_int(f"r{a}" if not isinstance(a, tuple) else f"s{a[1]}", 0, 0xFFFF if not isinstance(a, tuple) else 0xFF)
        try:
            rounds = self._run(G, default, const_crc, lambda lo, hi, sfx: sym_int("x" + sfx, lo, hi))
        except Exception as e:  # noqa: BLE001
            ex.fail("setter/getter raised for a valid value", f"{type(e).__name__}: {e}")
        for x, got in rounds:
            if got is None:
                ex.fail("getter returned None after a successful set")
            ex.check(to_z3(got) == x.e, "getter does not return the value that was set")
        return "roundtrip"

    def concrete(self, inputs):
        R = real()
        tag = f"{self.cfg['label']}: {self.what}"

        def default(a):
            return inputs.get(f"r{a}" if not isinstance(a, tuple) else f"s{a[1]}", 0)
        try:
            rounds = self._run(R, default, None, lambda lo, hi, sfx: inputs.get("x" + sfx, lo))
        except Exception as e:  # noqa: BLE001
            return {"outcome": "raised", "violation": f"{tag}: setter/getter raised {type(e).__name__}", "observed": f"{type(e).__name__}: {e}"}
        bad = [(x, got) for x, got in rounds if got != x]
        return {"outcome": "roundtrip", "violation": None if not bad else f"{tag}: getter does not return the value that was set",
                "observed": f"rounds={rounds}"}


SCALAR_CFGS = E2E_CFGS[:1] + E2E_CFGS[4:5] + [
    {"family": "DT", "serial": "9010KDTU218W0001", "refuse": [], "label": "DT three phase"},
    {"family": "DT", "serial": "9010KDSN218W0001", "refuse": [], "label": "DT single phase"},
    # the same over Modbus/TCP (other command classes and validator)
    {"family": "ET", "serial": "9010KETU218W0001", "rated_power": 10000, "refuse": [], "transport": "tcp", "label": "ET eco v2 (tcp)"},
    {"family": "DT", "serial": "9010KDTU218W0001", "refuse": [], "transport": "tcp", "label": "DT three phase (tcp)"},
]


def tasks(tier, seed):
    ts = []
    # set_operation_mode always forces the group to an eco type (ECO_MODE or ECO_MODE_745) before encoding
    enc = [("EcoModeV1", 0, w) for w in ("charge", "discharge", "off")]
    enc += [("Schedule", t, w) for t in (0, 6) for w in ("charge", "discharge", "off")]
    ts.append({"name": "encoder", "fn": "enc", "items": enc})
    modes = (0, 1, 2, 3, 4, 5, 98, 99)
    items = [(cfg, m) for cfg in E2E_CFGS for m in modes]
    items.sort(key=lambda t: 0 if t[1] in (98, 99) else 1)
    n = 16 if tier == "quick" else 32
    ts += [{"name": f"mode-{i}", "fn": "mode", "tier": tier, "items": items[i::n]} for i in range(n) if items[i::n]]
    sc = [(cfg, w) for cfg in SCALAR_CFGS for w in ("export", "dod") if not (cfg["family"] == "DT" and w == "dod")]
    ts.append({"name": "scalar", "fn": "scalar", "items": sc})
    return ts


def run_task(task):
    G = shimmed()
    if not hasattr(G, "orig_sensor_fns"):
        G.orig_sensor_fns = (G.sensor.decode_day_of_week, G.sensor.decode_months)
        G.orig_bitmap = G.sensor.decode_bitmap
    out = []
    if task["fn"] == "enc":
        for c, t, w in task["items"]:
            out.append(explore(Encoder(c, t, w), max_paths=5000, max_seconds=300, trace=len(out) < 2))
    elif task["fn"] == "mode":
        for cfg, m in task["items"]:
            out.append(explore(ModeRoundTrip(cfg, m, task.get("tier", "quick")), max_paths=20000, max_seconds=600, witnesses_per_outcome=1,
                               trace=len(out) < 2))
    else:
        for cfg, w in task["items"]:
            out.append(explore(ScalarRoundTrip(cfg, w), max_paths=5000, max_seconds=300, trace=len(out) < 2))
    return {"harnesses": out}


def replay(case):
    p = case["params"]
    if case["harness"] == "encoder":
        return Encoder(p["cls"], p["schedule_type"], p["what"]).concrete(case["inputs"])
    if case["harness"] == "mode":
        return ModeRoundTrip(p["cfg"], p["mode"], p.get("tier", "quick")).concrete(case["inputs"])
    return ScalarRoundTrip(p["cfg"], p["what"]).concrete(case["inputs"])


def evidence_meta(tier):
    return {
        "level": "model_checking",
        "rule": "one state = one path of encode->decode (encoder level) or of set_*; get_* through the public API on the "
                "simulated inverter (end to end) with symbolic power, SoC, value and symbolic prior register content",
        "bounds": {"encoder": "every ScheduleType x power 1..100 x SoC 0..100 (symbolic) x EcoModeV1/Schedule x charge/discharge/off",
                   "end_to_end": "every mode of get_operation_modes(True) x {ET eco v1, v2, 745, no peak shaving; ES v1, v2} x "
                                 "symbolic power/SoC x symbolic prior content of all four eco groups",
                   "scalars": "export limit 0..65534 (0..2^32-2 for DT single phase), DoD 0..100"},
        "outside": ["export limit 65535 (all-ones sentinel, recorded under C17)",
                    "the ES command <-> settings block mapping (0x0560 <-> offset 32, 0335 <-> 52, 0359 <-> 66) is an assumption "
                    "of the simulated inverter"],
        "assumptions": ["int(value/10) is modelled as exact truncation of a rational"],
    }
