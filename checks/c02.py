"""C02 — every conforming response frame is accepted (and its payload delivered unchanged)."""
from __future__ import annotations

from . import c01 as _c01
from . import validators as V
from vf.common import explore

PROP = "C02"
MODE = "C02"


def tasks(tier, seed):
    inst = _c01._instances(tier)
    inst.sort(key=lambda t: -t[2])
    nchunks = 48 if tier == "quick" else 160
    chunks = [inst[i::nchunks] for i in range(nchunks)]
    ts = [{"name": f"validators-{i}", "fn": "validators", "mode": MODE, "instances": c} for i, c in enumerate(chunks) if c]
    # transport half: a complete conforming answer must make the request succeed at once, also when an earlier request
    # on the same object left a fragment behind whose missing tail has exactly this answer's length
    for framing in ("rtu", "tcp"):
        for ka in (False, True):
            ts.append({"name": f"transport-{framing}-{ka}", "fn": "transport", "framing": framing, "ka": ka})
    return ts


def run_task(task):
    if task["fn"] == "transport":
        from .c07 import Fragments
        h = Fragments(task["framing"], task["ka"], 2, "stale_next_request")
        h.name = "conforming-after-fragment"
        return {"harnesses": [explore(h, max_paths=5000, max_seconds=600, witnesses_per_outcome=1)]}
    out = []
    for framing, kind, n, m in task["instances"]:
        h = V.ValidatorHarness(task["mode"], framing, kind, n, m)
        out.append(explore(h, max_paths=20000, max_seconds=600))
    return {"harnesses": out}


def replay(case):
    p = case["params"]
    if case["harness"] == "conforming-after-fragment":
        from .c07 import Fragments
        return Fragments(p["framing"], p["keep_alive"], p["count"], p["variant"], p["T"], p["retries"]).concrete(case["inputs"])
    h = V.ValidatorHarness(MODE, p["framing"], p["kind"], p["n"], p["m"])
    return h.concrete(case["inputs"])


def evidence_meta(tier):
    m = _c01.evidence_meta(tier)
    m["bounds"].pop("crc_lemma_message_lengths", None)
    m["rule"] = ("one state = one feasible path of a real validator on a frame of n symbolic bytes; on every "
                 "non-accepting path z3 must refute 'the frame is conforming'; on accepting paths the delivered "
                 "payload must equal the frame's payload bytes")
    m["outside"] = ["frames longer than 264 bytes", "AA55 frames are at most 264 bytes (length byte) so all are covered",
                    "trailing bytes after an RTU/TCP read frame: payload compared as a prefix of response_data()"]
    return m
