"""C02 — every conforming response frame is accepted (and its payload delivered unchanged)."""
from __future__ import annotations

from . import c01 as _c01
from . import validators as V
from vf.common import explore

PROP = "C02"
MODE = "C02"


def tasks(tier, seed):
    inst = _c01._instances(tier)
    inst.sort(key=lambda t: -t[2])
    nchunks = 48 if tier == "quick" else 160
    chunks = [inst[i::nchunks] for i in range(nchunks)]
    ts = [{"name": f"validators-{i}", "fn": "validators", "mode": MODE, "instances": c} for i, c in enumerate(chunks) if c]
    # transport half: a complete conforming answer must make the request succeed at once, also when an earlier request
    # on the same object left a fragment behind whose missing tail has exactly this answer's length
    for framing in ("rtu", "tcp"):
        for ka in (False, True):
            ts.append({"name": f"transport-{framing}-{ka}", "fn": "transport", "framing": framing, "ka": ka})
    # ... and also while another caller's request of a different shape is queued on the same object (the answer must
    # be judged by the validator of the request it answers)
    for tr, ka in (("udp", False), ("udp", True), ("tcp", True)):
        ts.append({"name": f"queued-{tr}-{ka}", "fn": "queued", "transport": tr, "ka": ka})
    api = _api_items(tier)
    for i in range(8):
        if api[i::8]:
            ts.append({"name": f"api-{i}", "fn": "api", "items": api[i::8]})
    return ts


def _api_ack(cfg, sid, transport="udp"):
    """API level: write_setting(id, v) for every encodable v, against the simulated inverter that acknowledges with the
    conforming echo of the request (built independently of the validators).  The acknowledge must be accepted."""
    from .c17 import WriteRead
    from .fakeinv import const_crc, drive
    from symx.core import sym_int

    class ApiAck(WriteRead):
        def __init__(self, *a):
            super().__init__(*a)
            self.name = "api-conforming-ack"

        def _go(self, M, inv, value):
            try:
                drive(inv.write_setting(self.sid, value))
            except RuntimeError as e:
                if "validator refuses" in str(e):
                    return str(e)
            except Exception:  # noqa: BLE001  (anything else about write_setting is C17's subject)
                return None
            return None

        def symbolic(self, ex):
            G = shimmed_()
            G.modbus._modbus_checksum = const_crc
            inv, fake = self._setup(G, lambda a: sym_int(f"p{a}", 0, 0xFFFF), const_crc)
            st = inv._settings[self.sid]
            value, ref, cmp = self.sym_value(st, ex)
            bad = self._go(G, inv, value)
            if bad:
                ex.fail("the conforming acknowledge of a write was refused by the response validator", bad[:200])
            return "accepted"

        def concrete(self, inputs):
            R = real_()
            inv, fake = self._setup(R, lambda a: inputs.get(f"p{a}", 0), None)
            st = inv._settings[self.sid]
            value = self.conc_value(st, inputs)
            bad = self._go(R, inv, value)
            tag = f"{self.cfg['family']}:{self.sid}" + (":tcp" if self.transport == "tcp" else "")
            return {"outcome": "accepted", "violation": f"{tag}: conforming write acknowledge refused" if bad else None,
                    "observed": f"write_setting({self.sid}, {value!r}) -> {bad or 'acknowledged'}"}
    return ApiAck(cfg, sid, transport)


def shimmed_():
    from vf.common import shimmed
    G = shimmed()
    if not hasattr(G, "orig_sensor_fns"):
        G.orig_sensor_fns = (G.sensor.decode_day_of_week, G.sensor.decode_months)
        G.orig_bitmap = G.sensor.decode_bitmap
    return G


def real_():
    from vf.common import real
    return real()


def _api_items(tier):
    """one setting per (family, firmware variant, sensor class, transport of the setting)"""
    from .c11 import SETTING_CFGS
    from .c17 import encodable
    from . import models, sensors as S
    R = real_()
    items, seen = [], set()
    for cfg in SETTING_CFGS:
        inv, _ = models.make(R, cfg)
        for st in inv.settings():
            c = S.cls_name(st)
            if not encodable(st) or c in ("EcoModeV1", "EcoModeV2", "Schedule", "PeakShavingMode") or \
                    (cfg["family"] == "ES" and c != "ByteH"):
                continue   # group writes are acknowledged with register and count only (no value echo); ES block settings: C19
            k = (cfg["family"], cfg.get("firmware"), c, st.offset > 30000)
            if k in seen:
                continue
            seen.add(k)
            items.append((cfg, st.id_, "udp"))
            if cfg["family"] != "ES" and c in ("ByteH", "IntegerS", "Integer"):
                items.append((cfg, st.id_, "tcp"))
    return items


def _queued(transport, ka):
    from .c06 import Concurrent

    class Queued(Concurrent):
        name = "conforming-while-queued"

        def verdict(self, obs, check, fail):
            if obs.abort is not None:
                return
            for j in range(self.ntasks):
                if j not in obs.done:
                    continue
                k = sum(1 for x in obs.txlog if x[1] == j)
                if obs.kinds.get((j, 0)) == "answer" and (k != 1 or obs.done[j][1] != "response"):
                    fail("a conforming answer that arrived in time was not accepted while another request was queued",
                         f"caller {j}: {k} transmissions, {obs.done[j][1]}")
    h = Queued(transport, ka, 2, pinned={"0": ["answer", "answer"]})   # caller 0 starts at 0 and is answered; caller 1 is free
    h.shapes = True
    return h


def run_task(task):
    if task["fn"] == "api":
        return {"harnesses": [explore(_api_ack(*it), max_paths=5000, max_seconds=300, witnesses_per_outcome=1) for it in task["items"]]}
    if task["fn"] == "queued":
        return {"harnesses": [explore(_queued(task["transport"], task["ka"]), max_paths=60000, max_seconds=900, witnesses_per_outcome=1)]}
    if task["fn"] == "transport":
        from .c07 import Fragments
        h = Fragments(task["framing"], task["ka"], 2, "stale_next_request")
        h.name = "conforming-after-fragment"
        return {"harnesses": [explore(h, max_paths=5000, max_seconds=600, witnesses_per_outcome=1)]}
    out = []
    for framing, kind, n, m in task["instances"]:
        h = V.ValidatorHarness(task["mode"], framing, kind, n, m)
        out.append(explore(h, max_paths=20000, max_seconds=600))
    return {"harnesses": out}


def replay(case):
    p = case["params"]
    if case["harness"] == "api-conforming-ack":
        return _api_ack(p["cfg"], p["id"], p["transport"]).concrete(case["inputs"])
    if case["harness"] == "conforming-while-queued":
        return _queued(p["transport"], p["keep_alive"]).concrete(case["inputs"])
    if case["harness"] == "conforming-after-fragment":
        from .c07 import Fragments
        return Fragments(p["framing"], p["keep_alive"], p["count"], p["variant"], p["T"], p["retries"]).concrete(case["inputs"])
    h = V.ValidatorHarness(MODE, p["framing"], p["kind"], p["n"], p["m"])
    return h.concrete(case["inputs"])


def evidence_meta(tier):
    m = _c01.evidence_meta(tier)
    m["bounds"].pop("crc_lemma_message_lengths", None)
    m["rule"] = ("one state = one feasible path of a real validator on a frame of n symbolic bytes; on every "
                 "non-accepting path z3 must refute 'the frame is conforming'; on accepting paths the delivered "
                 "payload must equal the frame's payload bytes")
    m["bounds"]["transport"] = ("a complete conforming answer (a) to the request after one that left a fragment behind, "
                                "(b) to a request in flight while a second caller's request of another shape (2 vs 3 "
                                "registers) is queued: udp x keep-alive, tcp keep-alive; start offsets 0..2T, delays 0..T-1; "
                                "(c) API level: write_setting over the encodable domain of one setting per (family, "
                                "firmware, class), acknowledged by the simulated inverter's conforming echo")
    m["outside"] = ["tcp without keep-alive with two callers: the stale connection_lost defect recorded under C06 closes "
                    "the second caller's connection before any answer reaches a validator","frames longer than 264 bytes", "AA55 frames are at most 264 bytes (length byte) so all are covered",
                    "trailing bytes after an RTU/TCP read frame: payload compared as a prefix of response_data()"]
    return m
