"""C20 — inverter objects are independent; returned values do not change afterwards.

2-safety by self-composition: two inverter objects on two simulated inverters; each object's operation sequence is run
(1) alone and (2) interleaved with the other object's sequence (interleaving chosen by symbolic booleans); per object
the decoded request log and the results of (2) must be solver-equal to those of (1).  Every value handed to the caller
is snapshotted at return and compared after every later operation."""
from __future__ import annotations

import z3

from symx.core import Explorer, SInt, SReal, SBool, sym_int, sym_bool, to_z3
from symx.shims import SDateTime
from vf.common import Harness, shimmed, real, explore, reset_mutable_class_state
from . import models
from .fakeinv import const_crc, drive

PROP = "C20"

DEVICES = {
    "ET": {"family": "ET", "serial": "9010KETU218W0001", "rated_power": 10000, "refuse": []},
    "ET745": {"family": "ET", "serial": "9010KETT218W0001", "rated_power": 10000, "refuse": []},
    "ETv1": {"family": "ET", "serial": "9010KETU218W0001", "rated_power": 10000, "refuse": ["eco_v2", "peak_shaving"]},
    "ETunset": {"family": "ET", "serial": "9010KETU218W0001", "rated_power": 10000, "refuse": []},
    # firmware that answers the export-limit register with ILLEGAL DATA ADDRESS (what one unit refuses must not be
    # remembered for another)
    "ETnolimit": {"family": "ET", "serial": "9010KETU218W0001", "rated_power": 10000, "refuse": [], "refuse_addrs": [47510]},
    # two units behind one Modbus/TCP gateway (same host:port, different communication addresses)
    "ETtcp": {"family": "ET", "serial": "9010KETU218W0001", "rated_power": 10000, "refuse": [], "transport": "tcp"},
    "DTtcp": {"family": "DT", "serial": "9010KDTU218W0001", "refuse": [], "transport": "tcp"},
    "ES": {"family": "ES", "serial": "95048ESU218W0001", "firmware": "2323G"},
    "DT": {"family": "DT", "serial": "9010KDTU218W0001", "refuse": []},
    "DT1": {"family": "DT", "serial": "9010KDSN218W0001", "refuse": []},
}
PAIRS = [("ET", "ET"), ("ET", "ET745"), ("ET745", "ET"), ("ET", "ES"), ("DT", "ET"), ("DT", "DT1"), ("ETv1", "ETv1"),
         ("ES", "ES"), ("ETunset", "ET"), ("ET745", "ETunset"), ("ETtcp", "DTtcp")]

# operations: name -> coroutine factory(inv, args)
OPS = ("runtime", "read_eco", "read_scalar", "write_scalar", "write_eco", "eco_charge", "read_sensor")


_DEF_KEYS = {}


def reset_class_state(M):
    """The eco-mode/schedule definition objects live in class attributes: bring them back to their constructor state
    so that a path does not inherit what an earlier path left there (the *property* is checked from a fresh process
    state; leaking between objects within one path is what the check is about)."""
    S = M.sensor
    reset_mutable_class_state(M, modules=("protocol", "inverter", "et", "es", "dt", "model", "sensor"))
    for cls_ in (M.et.ET, M.es.ES, M.dt.DT):
        for name, val in vars(cls_).items():
            if isinstance(val, tuple) and val and all(hasattr(x, "id_") for x in val):
                for s in val:
                    # state a definition object acquired at run time (memoised readings ...) is dropped: attributes
                    # go back to the value they had when the object was first seen (label tables stay wrapped)
                    init = _DEF_KEYS.setdefault(id(s), dict(vars(s)))
                    for k in list(vars(s)):
                        if k not in init:
                            delattr(s, k)
                        elif vars(s)[k] is not init[k] and "label" not in k:
                            setattr(s, k, init[k])
                    if isinstance(s, (S.EcoModeV1, S.Schedule)):
                        fresh = type(s)(s.id_, s.offset, s.name)
                        s.__dict__.update(fresh.__dict__)


def snap(v):
    """immutable snapshot of a returned value (terms, not object references)"""
    if v is None or isinstance(v, (int, float, str, bytes, SInt, SReal, SBool)):
        return v
    if isinstance(v, SDateTime):
        return ("dt",) + tuple(v.fields())
    if isinstance(v, dict):
        return ("dict",) + tuple((k, snap(x)) for k, x in sorted(v.items()))
    if isinstance(v, (tuple, list)):
        return ("seq",) + tuple(snap(x) for x in v)
    if hasattr(v, "start_h"):
        f = ("start_h", "start_m", "end_h", "end_m", "on_off", "day_bits", "power", "soc")
        extra = ("month_bits", "schedule_type") if hasattr(v, "month_bits") else ()
        return ("group",) + tuple((n, getattr(v, n, None)) for n in f + extra)
    if isinstance(v, BaseException):
        return ("exc", type(v).__name__)
    return ("repr", repr(v))


def same(a, b):
    """python bool or z3 Bool: snapshots equal"""
    if isinstance(a, tuple) and isinstance(b, tuple):
        if len(a) != len(b):
            return False
        conj = []
        for x, y in zip(a, b):
            r = same(x, y)
            if r is False:
                return False
            if r is not True:
                conj.append(r)
        return z3.And(conj) if conj else True
    if isinstance(a, (SInt, SReal, SBool)) or isinstance(b, (SInt, SReal, SBool)):
        if a is None or b is None or isinstance(a, (str, tuple)) or isinstance(b, (str, tuple)):
            return False
        ta, tb = to_z3(a), to_z3(b)
        if z3.is_int(ta) and z3.is_real(tb):
            ta = z3.ToReal(ta)
        if z3.is_real(ta) and z3.is_int(tb):
            tb = z3.ToReal(tb)
        return ta == tb
    if isinstance(a, float) and isinstance(b, float) and a != a and b != b:
        return True
    return a == b


class TwoObjects(Harness):
    def __init__(self, pair, seq_a, seq_b):
        self.pair, self.seq_a, self.seq_b = tuple(pair), tuple(seq_a), tuple(seq_b)
        self.name = "two-objects"
        self.params = {"pair": list(pair), "seq_a": list(seq_a), "seq_b": list(seq_b)}

    # -- devices -------------------------------------------------------------------------------------------
    def make(self, M, who, devname, val, crc):
        cfg = DEVICES[devname]
        k = 0 if who == "A" else 1

        def default(addr):
            if isinstance(addr, tuple):
                return (addr[1] * 7 + 3 + 11 * k) % 200
            # eco group 1 of either version: first byte (start hour) free, a valid group otherwise
            if addr in (47547, 47515, 1793):
                return val(f"{who}_start", 0, 255) * 256 + 0
            if addr == 47548:
                return 23 * 256 + 59
            if addr == 47549:  # on_off, days: an eco type of the platform (745: -7) or "never configured" (0x55), all days
                return (0xF9 if devname == "ET745" else 0x55 if devname == "ETunset" else 0xFF) * 256 + 0x7F
            if addr == 47550:
                return (65536 - 300) if devname == "ET745" else (65536 - 30 - k)
            if addr == 47551:
                return 90 + k
            if addr == 47552:
                return 0x0FFF if devname == "ET745" else 0
            if addr in (47516, 1794):
                return 23 * 256 + 59
            if addr in (47517, 1795):
                return 65536 - 40 - k
            if addr in (47518, 1796):
                return 0xFF7F
            if addr in (47510, 40328, 40336):
                return val(f"{who}_limit", 0, 0xFFFE)
            if cfg["family"] == "DT" and addr in (30197, 30198):
                # a DT meter total (4-byte energy counter): any content, including the 'no value' pattern
                return val(f"{who}_m{addr - 30197}", 0, 0xFFFF)
            return (addr * 31 + 17 + 1000 * k) % 3000
        inv, fake = models.make(M, {k: v for k, v in cfg.items() if k != "transport"}, default=lambda a: 1, crc=crc,
                                transport=cfg.get("transport", "udp"))
        info = range(0x88b8, 0x88b8 + 0x21) if cfg["family"] == "ET" else range(0x7531, 0x7531 + 0x28)
        fake.regs = {a: v for a, v in fake.regs.items() if a in info}
        fake.default = default
        if cfg.get("refuse_addrs"):
            base_refuse, extra = fake.refuse, tuple(cfg["refuse_addrs"])
            fake.refuse = lambda a, c: a in extra or base_refuse(a, c)
        if cfg["family"] == "ES":
            fake.es_runtime = [default(("s", i)) for i in range(142)]
            fake.es_settings = [default(("s", i + 200)) for i in range(86)]
        fake.log.clear()
        fake.raw_log.clear()
        return inv, fake

    def op(self, M, inv, devname, name, who, val):
        fam = DEVICES[devname]["family"]
        if name == "runtime":
            return inv.read_runtime_data()
        if name == "read_eco":
            return inv.read_setting("eco_mode_1" if fam != "DT" else "grid_export_limit")
        if name == "read_scalar":
            return inv.read_setting("grid_export_limit")
        if name == "write_scalar":
            return inv.write_setting("grid_export_limit" if fam != "ES" else "eco_mode_2_switch", val(f"{who}_w", 0, 100))
        if name == "write_eco":
            if fam == "DT":
                return inv.write_setting("grid_export_limit", 77)
            g = inv._settings["eco_mode_1"]
            b = bytes.fromhex("0000173bffec" + "ff7f") if g.size_ == 8 else bytes.fromhex("0000173bff7fffec00500000")
            return inv.write_setting("eco_mode_1", b)
        if name == "eco_charge":
            if fam == "DT":
                return inv.get_grid_export_limit()
            return inv.set_operation_mode(M.inverter.OperationMode.ECO_CHARGE, val(f"{who}_p", 1, 100), val(f"{who}_soc", 0, 100))
        if name == "read_sensor":
            return inv.read_sensor("vpv1")
        raise KeyError(name)

    def run_schedule(self, M, order, val, crc):
        """order: list of 'A'/'B'.  Returns per object: list of result snapshots at return, list of the returned objects,
        request log."""
        reset_class_state(M)
        objs = {}
        for who, dev in zip("AB", self.pair):
            if who in order:
                objs[who] = self.make(M, who, dev, val, crc)
        idx = {"A": 0, "B": 0}
        res = {"A": [], "B": []}
        live = []  # (who, step, returned object, snapshot at return)
        unstable = []
        for who in order:
            dev = self.pair[0] if who == "A" else self.pair[1]
            seq = self.seq_a if who == "A" else self.seq_b
            name = seq[idx[who]]
            idx[who] += 1
            inv, fake = objs[who]
            try:
                r = drive(self.op(M, inv, dev, name, who, val))
            except (ValueError, M.exceptions.InverterError, NotImplementedError) as e:
                r = e
            s0 = snap(r)
            res[who].append(s0)
            # value stability: everything returned earlier must still have the content it had at return
            for w2, step, obj, s_then in live:
                eq = same(snap(obj), s_then)
                if eq is not True:
                    unstable.append((w2, step, who, name, snap(obj), s_then, eq))
            if not isinstance(r, (type(None), int, float, str, bytes, SInt, SReal, SBool, BaseException)):
                live.append((who, len(res[who]) - 1, r, s0))   # only mutable objects can change after return
        logs = {}
        for w in objs:
            fake = objs[w][1]
            tcp = DEVICES[self.pair[0] if w == "A" else self.pair[1]].get("transport") == "tcp"
            comms = []
            for raw in fake.raw_log:
                items = list(raw.items) if hasattr(raw, "items") and not isinstance(raw, (bytes, bytearray)) else list(raw)
                if len(items) >= 8 and not (items[0] == 0xAA and items[1] == 0x55):
                    comms.append(items[6] if tcp else items[0])     # unit / communication address of the request
            logs[w] = list(fake.log) + [("comm",) + tuple(comms)]
        return res, logs, unstable

    def compare(self, ex_check, solo, inter, who):
        (res_s, log_s), (res_i, log_i) = solo, inter
        r = same(("seq",) + tuple(res_s), ("seq",) + tuple(res_i))
        ex_check(r, f"results of object {who} differ between the interleaved and the solo run")
        r = same(snap(log_s), snap(log_i))
        ex_check(r, f"requests of object {who} differ between the interleaved and the solo run")

    def orders(self):
        na, nb = len(self.seq_a), len(self.seq_b)
        out = []

        def rec(prefix, a, b):
            if a == na and b == nb:
                out.append(prefix)
                return
            if a < na:
                rec(prefix + ["A"], a + 1, b)
            if b < nb:
                rec(prefix + ["B"], a, b + 1)
        rec([], 0, 0)
        return out

    def symbolic(self, ex):
        G = shimmed()
        G.modbus._modbus_checksum = const_crc
        G.sensor.decode_bitmap = G.orig_bitmap
        G.sensor.decode_day_of_week = lambda d: "<days>"
        G.sensor.decode_months = lambda d: "<months>"
        cache = {}

        def val(name, lo, hi):
            if name not in cache:
                cache[name] = sym_int(name, lo, hi)
            return cache[name]
        orders = self.orders()
        k = int(sym_int("interleaving", 0, len(orders) - 1))
        order = orders[k]

        def chk(r, label):
            if r is True:
                return
            if r is False:
                ex.fail(label)
            ex.check(r, label)
        solo_a = self.run_schedule(G, ["A"] * len(self.seq_a), val, const_crc)
        solo_b = self.run_schedule(G, ["B"] * len(self.seq_b), val, const_crc)
        inter = self.run_schedule(G, order, val, const_crc)
        for u in solo_a[2] + solo_b[2] + inter[2]:
            if u[6] is False:
                ex.fail("a value handed to the caller changed afterwards", f"value of {u[0]} step {u[1]} changed after {u[2]}.{u[3]}")
            ex.check(u[6], "a value handed to the caller changed afterwards", f"value of {u[0]} step {u[1]} changed after {u[2]}.{u[3]}")
        self.compare(chk, (solo_a[0]["A"], solo_a[1]["A"]), (inter[0]["A"], inter[1]["A"]), "A")
        self.compare(chk, (solo_b[0]["B"], solo_b[1]["B"]), (inter[0]["B"], inter[1]["B"]), "B")
        return "independent"

    def concrete(self, inputs):
        R = real()
        tag = f"{self.pair[0]}/{self.pair[1]} A={'+'.join(self.seq_a)} B={'+'.join(self.seq_b)}"

        def val(name, lo, hi):
            return inputs.get(name, lo)
        order = self.orders()[inputs.get("interleaving", 0)]
        solo_a = self.run_schedule(R, ["A"] * len(self.seq_a), val, None)
        solo_b = self.run_schedule(R, ["B"] * len(self.seq_b), val, None)
        inter = self.run_schedule(R, order, val, None)
        viol, obs = None, f"order={''.join(order)} inputs={ {k: v for k, v in inputs.items() if k != 'interleaving'} }"
        for part, name in ((solo_a, "solo A"), (solo_b, "solo B"), (inter, "interleaved")):
            changed = [u for u in part[2] if u[6] is False]
            if changed:
                u = changed[0]
                kind = "eco-mode/schedule group" if isinstance(u[5], tuple) and u[5][:1] == ("group",) else "value"
                viol = f"{kind} returned by read_setting changes when a later call decodes the same setting ({'same object' if u[0] == u[2] else 'other object'})"
                obs += f" [{name}] value of {u[0]} step {u[1]} after {u[2]}.{u[3]}: {u[5]} -> {u[4]}"
                break
        if viol is None:
            for who, solo in (("A", solo_a), ("B", solo_b)):
                if solo[0][who] != inter[0][who]:
                    viol = f"{tag}: results of one object depend on the other object's calls"
                    obs += f" {who}: solo={solo[0][who]} interleaved={inter[0][who]}"
                    break
                if snap(solo[1][who]) != snap(inter[1][who]):
                    viol = f"{tag}: requests of one object depend on the other object's calls"
                    obs += f" {who}: solo={solo[1][who]} interleaved={inter[1][who]}"
                    break
        return {"outcome": "independent", "violation": viol, "observed": obs[:900]}


class TwoObjectsOnTheWire(Harness):
    """Transport level: two inverter objects used concurrently in the virtual network, every transmission answered in
    time (symbolic delays and start offsets).  Alone, each request is one transmission; interleaved it must be, too."""

    name = "two-objects-wire"

    def __init__(self, transport):
        from .c06 import Concurrent
        self.transport = transport
        self.inner = Concurrent(transport, True, 2, two_objects=True, pinned={"0": ["answer", "answer"], "1": ["answer", "answer"]})
        self.inner.pinned_offsets = False
        self.params = {"transport": transport}

    def _verdict(self, obs, fail):
        if obs.abort is not None:
            fail("a caller never completed", obs.abort)
        for j in range(2):
            k = [x for x in obs.txlog if x[1] == j]
            if len(k) != 1:
                fail("an object transmitted its request more than once although every transmission was answered in time",
                     f"object {j}: {len(k)} transmissions")
            t, kind, payload = obs.done[j]
            if kind != "response":
                fail("an object's request failed although it was answered in time", kind)

    def symbolic(self, ex):
        from . import transport as TR
        G = shimmed()
        G.modbus._modbus_checksum = G.orig_checksum
        obs = self.inner._run(G, TR.SymScript([], self.inner.T))
        self.inner.verdict(obs, lambda c, l, d="": ex.check(c, l, d) if not isinstance(c, bool) else (None if c else ex.fail(l, d)), ex.fail)
        self._verdict(obs, ex.fail)
        return "independent"

    def concrete(self, inputs):
        from . import transport as TR
        R = real()
        obs = self.inner._run(R, TR.DictScript(inputs, self.inner.T))
        viol = []

        class Stop(Exception):
            pass

        def fail(label, detail=""):
            viol.append((label, detail))
            raise Stop()
        try:
            self._verdict(obs, fail)
        except Stop:
            pass
        return {"outcome": "independent", "violation": f"two {self.transport} objects on the wire: {viol[0][0]}" if viol else None,
                "observed": f"script={inputs} tx={obs.txlog} done={ {j: (v[0], v[1]) for j, v in obs.done.items()} } {viol[0][1] if viol else ''}"}


SEQS_QUICK = [("read_eco", "eco_charge"), ("eco_charge", "read_eco"), ("write_scalar", "read_scalar"),
              ("write_eco", "read_eco"), ("runtime", "read_sensor"), ("read_eco", "read_eco")]


def tasks(tier, seed):
    items = []
    seqs = list(SEQS_QUICK)
    if tier == "thorough":
        seqs += [("read_eco", "eco_charge", "read_eco"), ("eco_charge", "write_eco", "read_eco"),
                 ("runtime", "write_scalar", "read_scalar"), ("read_scalar", "eco_charge", "runtime")]
    for pair in PAIRS:
        for sa in seqs:
            for sb in seqs:
                items.append((pair, sa, sb))
    scalar = [("write_scalar", "read_scalar"), ("read_scalar", "read_eco")]
    for pair in (("ETnolimit", "ET"), ("ET", "ETnolimit")):
        for sa in scalar:
            for sb in scalar:
                items.append((pair, sa, sb))
    n = 48 if tier == "quick" else 96
    ts = [{"name": f"two-{i}", "items": items[i::n]} for i in range(n) if items[i::n]]
    ts += [{"name": f"wire-{tr}", "wire": tr} for tr in ("tcp", "udp")]
    return ts


def run_task(task):
    G = shimmed()
    if not hasattr(G, "orig_sensor_fns"):
        G.orig_sensor_fns = (G.sensor.decode_day_of_week, G.sensor.decode_months)
        G.orig_bitmap = G.sensor.decode_bitmap
    out = []
    if "wire" in task:
        return {"harnesses": [explore(TwoObjectsOnTheWire(task["wire"]), max_paths=50000, max_seconds=1200, witnesses_per_outcome=1)]}
    for pair, sa, sb in task["items"]:
        out.append(explore(TwoObjects(pair, sa, sb), max_paths=3000, max_seconds=300, witnesses_per_outcome=1,
                           trace=len(out) < 1))
    return {"harnesses": out}


def replay(case):
    p = case["params"]
    if case["harness"] == "two-objects-wire":
        return TwoObjectsOnTheWire(p["transport"]).concrete(case["inputs"])
    return TwoObjects(p["pair"], p["seq_a"], p["seq_b"]).concrete(case["inputs"])


def evidence_meta(tier):
    return {
        "level": "model_checking",
        "rule": "one state = one path of (solo run of A, solo run of B, interleaved run) over two simulated inverters; "
                "the interleaving is a symbolic choice; start hour of eco group 1, export limit, written value, power "
                "and SoC are symbolic per object; per object z3 proves log and results of the interleaved run equal "
                "the solo run; every returned value is re-snapshotted after every later operation",
        "bounds": {"pairings": [list(p) for p in PAIRS], "sequences": "6 two-operation sequences per object (quick), "
                   "10 incl. three-operation ones (thorough), all pairs of them", "interleavings": "all (symbolic choice)"},
        "outside": ["more than 3 operations per object", "threads", "register contents other than the listed symbolic ones are "
                    "concrete, different per device"],
        "assumptions": ["class-level sensor definition objects are reset to constructor state before each run of a path "
                        "(process-fresh state); the Modbus/TCP transaction id is not part of the compared request log"],
    }
