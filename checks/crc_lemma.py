"""Lemma K-CRC: the real table-driven ``goodwe.modbus._modbus_checksum`` equals bitwise CRC-16/MODBUS.

(a) bounded: the real function is *executed* on n symbolic bytes (bit-vector proxies; the real 256-entry table is
    looked up through an if-then-else tree built from its live values) and z3 (QF_BV) must answer unsat to
    "result != reference" — for every message of n bytes at once.
(b) inductive (all lengths): the loop body is taken from the function's AST (shape checked), run once from an
    arbitrary 16-bit state and an arbitrary byte, and must equal eight reference shift/xor steps; together with the
    initial value this covers messages of any length.
"""
from __future__ import annotations

import ast
import inspect
import textwrap
import time

import z3

from vf.common import shimmed, real


class SBV:
    """16-bit bit-vector proxy (enough for the CRC kernel)."""
    __slots__ = ("e",)
    W = 16

    def __init__(self, e):
        self.e = e

    @staticmethod
    def lift(x):
        if isinstance(x, SBV):
            return x.e
        return z3.BitVecVal(x & 0xFFFF, 16)

    def __xor__(self, o):
        return SBV(self.e ^ SBV.lift(o))

    __rxor__ = __xor__

    def __and__(self, o):
        return SBV(self.e & SBV.lift(o))

    __rand__ = __and__

    def __or__(self, o):
        return SBV(self.e | SBV.lift(o))

    __ror__ = __or__

    def __rshift__(self, k):
        return SBV(z3.LShR(self.e, SBV.lift(k)))

    def __lshift__(self, k):
        return SBV(self.e << SBV.lift(k))


class SymTable:
    """tuple stand-in: indexing with a bit-vector proxy builds a balanced if-then-else tree over the real entries."""

    def __init__(self, values):
        self.values = tuple(values)

    def __len__(self):
        return len(self.values)

    def __getitem__(self, i):
        if not isinstance(i, SBV):
            return self.values[i]
        idx = i.e

        def tree(lo, hi, bit):
            if hi - lo == 1:
                return z3.BitVecVal(self.values[lo], 16)
            mid = (lo + hi) // 2
            return z3.If(z3.Extract(bit, bit, idx) == 1, tree(mid, hi, bit - 1), tree(lo, mid, bit - 1))

        if len(self.values) != 256:
            raise ValueError("CRC table does not have 256 entries")
        return SBV(tree(0, 256, 7))


def ref_step(crc, byte):
    """one byte of bitwise CRC-16/MODBUS on z3 bit-vectors"""
    crc = crc ^ byte
    for _ in range(8):
        crc = z3.If(z3.Extract(0, 0, crc) == 1, z3.LShR(crc, 1) ^ z3.BitVecVal(0xA001, 16), z3.LShR(crc, 1))
    return crc


def lengths(tier):
    return list(range(1, 17)) if tier == "quick" else list(range(1, 65)) + [96, 128]


def tasks(tier):
    ts = [{"name": "crc-inductive", "fn": "crc", "what": "inductive"}]
    ls = lengths(tier)
    if tier == "quick":
        ts.append({"name": "crc-bounded-a", "fn": "crc", "what": "bounded", "ns": ls[:12]})
        for n in ls[12:]:
            ts.append({"name": f"crc-bounded-{n}", "fn": "crc", "what": "bounded", "ns": [n]})
    else:
        ts.append({"name": "crc-bounded-a", "fn": "crc", "what": "bounded", "ns": ls[:16]})
        for n in ls[16:]:
            ts.append({"name": f"crc-bounded-{n}", "fn": "crc", "what": "bounded", "ns": [n]})
    return ts


def _viol(name, msg, detail):
    r = replay({"inputs": {"msg": list(msg)}})
    return {"harness": "lemma:" + name, "params": {"n": len(msg)}, "label": "table CRC differs from CRC-16/MODBUS",
            "detail": detail, "inputs": {"msg": list(msg)}, "reproduced": bool(r["violation"]), "key": r["violation"],
            "observed": r["observed"]}


def run_bounded(ns, timeout_s=900, cross=False):
    G = shimmed()
    M = G.modbus
    res = []
    real_table = G.orig_crc_table
    M._modbus_checksum = G.orig_checksum
    for n in ns:
        t0 = time.perf_counter()
        M._CRC_16_TABLE = SymTable(real_table)
        try:
            bs = [z3.BitVec(f"m{i}", 16) for i in range(n)]
            s = z3.SolverFor("QF_BV")
            s.set("timeout", int(timeout_s * 1000))
            for b in bs:
                s.add(z3.ULE(b, 255))
            out = M._modbus_checksum([SBV(b) for b in bs])  # the real function, executed on proxies
            if not isinstance(out, SBV):
                raise TypeError(f"_modbus_checksum returned {type(out).__name__} on symbolic input")
            ref = z3.BitVecVal(0xFFFF, 16)
            for b in bs:
                ref = ref_step(ref, b)
            s.add(out.e != ref)
            r = s.check()
        finally:
            M._CRC_16_TABLE = real_table
        dt = time.perf_counter() - t0
        second = None
        if cross and r == z3.unsat and n <= 24:
            from vf.smt2 import cvc5_recheck
            second = cvc5_recheck(s, "QF_BV", 300)
        ent = {"name": f"K-CRC bounded n={n}", "queries": 1, "solver_s": round(dt, 3), "obligations": 1,
               "discharged": 1 if r == z3.unsat else 0, "bounds": {"message_bytes": n}, "result": str(r),
               "sample": f"forall m in bytes^{n}: _modbus_checksum(m) == crc16_modbus(m)  -> {r}"}
        if second is not None:
            ent["second_solver"] = second
            if second["result"] not in ("unsat", "unavailable"):
                ent["discharged"] = 0
                ent["inconclusive"] = f"cvc5 answered {second['result']} where z3 answered unsat"
        if r == z3.sat:
            m = s.model()
            msg = bytes(m.eval(b, model_completion=True).as_long() & 0xFF for b in bs)
            ent["violations_list"] = [_viol(f"crc-bounded", msg, f"n={n}")]
        elif r != z3.unsat:
            ent["inconclusive"] = f"solver answered {r} within {timeout_s}s"
        res.append(ent)
    return res


def run_inductive():
    """Loop body from the AST of the real function, one step from an arbitrary state."""
    G = shimmed()
    M = G.modbus
    t0 = time.perf_counter()
    ent = {"name": "K-CRC inductive step (all message lengths)", "queries": 0, "solver_s": 0.0, "obligations": 2,
           "discharged": 0, "bounds": {"state": "any 16-bit value", "byte": "any"}, "result": ""}
    try:
        M._modbus_checksum = G.orig_checksum
        src = textwrap.dedent(inspect.getsource(M._modbus_checksum))
        fn = ast.parse(src).body[0]
        body = [st for st in fn.body if not (isinstance(st, ast.Expr) and isinstance(st.value, ast.Constant))]
        ok_shape = (len(body) == 3 and isinstance(body[0], ast.Assign) and isinstance(body[1], ast.For)
                    and isinstance(body[2], ast.Return) and isinstance(body[2].value, ast.Name)
                    and isinstance(body[0].targets[0], ast.Name)
                    and body[2].value.id == body[0].targets[0].id and not body[1].orelse
                    and isinstance(body[1].target, ast.Name) and isinstance(body[1].iter, ast.Name)
                    and body[1].iter.id == fn.args.args[0].arg)
        if not ok_shape:
            ent["inconclusive"] = "function is not of the shape  acc = INIT; for ch in data: BODY; return acc"
            return [ent]
        acc, ch = body[0].targets[0].id, body[1].target.id
        init = eval(compile(ast.Expression(body[0].value), "<init>", "eval"), dict(M.__dict__))
        step_mod = ast.Module(body=[ast.FunctionDef(
            name="_step", args=ast.arguments(posonlyargs=[], args=[ast.arg(acc), ast.arg(ch)], kwonlyargs=[],
                                              kw_defaults=[], defaults=[]),
            body=body[1].body + [ast.Return(ast.Name(acc, ast.Load()))], decorator_list=[], type_params=[])],
            type_ignores=[])
        ast.fix_missing_locations(step_mod)
        table = G.orig_crc_table
        env = dict(M.__dict__)
        env["_CRC_16_TABLE"] = SymTable(table)
        exec(compile(step_mod, "<crc-step>", "exec"), env)
        s = z3.SolverFor("QF_BV")
        s.set("timeout", 600000)
        st, b = z3.BitVec("state", 16), z3.BitVec("byte", 16)
        s.add(z3.ULE(b, 255))
        got = env["_step"](SBV(st), SBV(b))
        s.add(got.e != ref_step(st, b))
        r = s.check()
        ent["queries"] = 1
        ent["result"] = f"init={init:#x} step={r}"
        ent["sample"] = f"forall state in BV16, byte: loop_body(state, byte) == 8 x shift/xor-0xA001 step -> {r}; init == 0xFFFF: {init == 0xFFFF}"
        if init == 0xFFFF:
            ent["discharged"] += 1
        else:
            ent["violations_list"] = [_viol("crc-init", b"\x00", f"initial value {init:#x}")]
        if r == z3.unsat:
            ent["discharged"] += 1
        elif r == z3.sat:
            # turn the step counterexample into a message when possible: a one byte message starts from INIT only,
            # so search a short concrete message that exhibits a difference
            ent["violations_list"] = ent.get("violations_list", []) + [_search_concrete_difference()]
        else:
            ent["inconclusive"] = f"solver answered {r}"
    except Exception as e:  # noqa: BLE001
        ent["inconclusive"] = f"could not extract loop body: {type(e).__name__}: {e}"
    ent["solver_s"] = round(time.perf_counter() - t0, 3)
    return [ent]


def _search_concrete_difference():
    res = run_bounded([1, 2, 3])
    for e in res:
        if e.get("violations_list"):
            return e["violations_list"][0]
    return {"harness": "lemma:crc-step", "params": {}, "label": "inductive step fails but no message of <=3 bytes differs",
            "detail": "", "inputs": {}, "reproduced": False, "key": None, "observed": "step counterexample not reachable?"}


def run_task(task):
    if task["what"] == "inductive":
        return {"lemmas": run_inductive()}
    return {"lemmas": run_bounded(task["ns"], cross=task.get("cross", False))}


def replay(case):
    from .validators import crc16_reference
    R = real()
    msg = bytes(case["inputs"]["msg"])
    got = R.modbus._modbus_checksum(msg)
    want = crc16_reference(msg)
    return {"outcome": "differs" if got != want else "equal",
            "violation": "crc: _modbus_checksum differs from CRC-16/MODBUS" if got != want else None,
            "observed": f"msg={msg.hex()} goodwe={got:#06x} reference={want:#06x}"}
