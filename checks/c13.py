"""C13 — derived and label sensors always agree with the raw sensors of the same read."""
from __future__ import annotations

import z3

from symx.core import Explorer, SInt, SReal, SBool, sym_int, to_z3, concrete_of
from symx.sbytes import SBytes
from symx.shims import round_shim, wrap_sensor_labels, SDict
from vf.common import Harness, shimmed, real, explore
from . import sensors as S

PROP = "C13"


# ---------------------------------------------------------------------------------------------------------------
# reference formulas for the derived sensors, over reference readings of the registers (not over the sensor code)
# ---------------------------------------------------------------------------------------------------------------
class Env:
    """Reference readings of the same response: r.v('Voltage', addr) -> proxy;  works on SBytes or bytes payloads."""

    def __init__(self, payload, pos_of, sym):
        self.payload, self.pos_of, self.sym = payload, pos_of, sym

    def _bytes(self, addr, w):
        p = self.pos_of(addr)
        return self.payload[p:p + w]

    def u(self, addr, w=2, undef=None):
        b = self._bytes(addr, w)
        if self.sym:
            t = S._u([to_z3(x) for x in b])
            if undef is not None:
                t = z3.If(t == 2 ** (8 * w) - 1, undef, t)
            return SInt(t)
        v = int.from_bytes(bytes(b), "big")
        return undef if undef is not None and v == 2 ** (8 * w) - 1 else v

    def s(self, addr, w=2):
        b = self._bytes(addr, w)
        if self.sym:
            return SInt(S._s([to_z3(x) for x in b]))
        return int.from_bytes(bytes(b), "big", signed=True)

    def dec10(self, addr):
        """Voltage / Current: u16 / 10 with 0xFFFF -> 0"""
        b = self._bytes(addr, 2)
        if self.sym:
            t = S._u([to_z3(x) for x in b])
            return SReal(z3.If(t == 0xFFFF, z3.RealVal(0), z3.ToReal(t) / 10))
        v = int.from_bytes(bytes(b), "big")
        return 0 if v == 0xFFFF else float(v) / 10

    def rnd(self, x):
        return round_shim(x) if self.sym else round(x)

    def ite(self, c, a, b):
        if self.sym and isinstance(c, SBool):
            ta, tb = to_z3(a), to_z3(b)
            if z3.is_real(ta) or z3.is_real(tb):
                return SReal(z3.If(c.e, z3.ToReal(ta) if z3.is_int(ta) else ta, z3.ToReal(tb) if z3.is_int(tb) else tb))
            return SInt(z3.If(c.e, ta, tb))
        return a if c else b

    def absv(self, x):
        if self.sym and isinstance(x, (SInt, SReal)):
            return abs(x)
        return abs(x)


def _grid(e, v):
    return e.ite(v < -90, 2, e.ite(v >= 90, 1, 0))


FORMULAS = {
    ("ET", "ppv"): lambda e: e.u(35105, 4, 0) + e.u(35109, 4, 0) + e.u(35113, 4, 0) + e.u(35117, 4, 0),
    ("ET", "house_consumption"): lambda e: e.u(35105, 4, 0) + e.u(35109, 4, 0) + e.u(35113, 4, 0) + e.u(35117, 4, 0)
    + e.s(35182, 4) - e.s(35140),
    ("ET", "grid_in_out"): lambda e: _grid(e, e.s(35140)),
    ("DT", "ppv1"): lambda e: e.rnd(e.dec10(30103) * e.dec10(30104)),
    ("DT", "ppv2"): lambda e: e.rnd(e.dec10(30105) * e.dec10(30106)),
    ("DT", "ppv3"): lambda e: e.rnd(e.dec10(30107) * e.dec10(30108)),
    ("DT", "ppv"): lambda e: e.rnd(e.dec10(30103) * e.dec10(30104)) + e.rnd(e.dec10(30105) * e.dec10(30106))
    + e.rnd(e.dec10(30107) * e.dec10(30108)),
    ("DT", "pgrid1"): lambda e: e.rnd(e.dec10(30118) * e.dec10(30121)),
    ("DT", "pgrid2"): lambda e: e.rnd(e.dec10(30119) * e.dec10(30122)),
    ("DT", "pgrid3"): lambda e: e.rnd(e.dec10(30120) * e.dec10(30123)),
    ("ES", "ppv1"): lambda e: e.rnd(e.dec10(0) * e.dec10(2)),
    ("ES", "ppv2"): lambda e: e.rnd(e.dec10(5) * e.dec10(7)),
    ("ES", "ppv"): lambda e: e.rnd(e.dec10(0) * e.dec10(2)) + e.rnd(e.dec10(5) * e.dec10(7)),
    ("ES", "ibattery1"): lambda e: e.dec10(18) * e.ite(e.s(30, 1) == 3, -1, 1),
    ("ES", "pbattery1"): lambda e: e.rnd(e.dec10(10) * e.dec10(18)) * e.ite(e.s(30, 1) == 3, -1, 1),
    ("ES", "pgrid"): lambda e: e.absv(e.s(38)) * e.ite(e.s(80, 1) == 2, -1, 1),
    ("ES", "plant_power"): lambda e: e.u(47, 2, 0) + e.u(81, 2, 0),
    ("ES", "house_consumption"): lambda e: e.rnd(e.dec10(0) * e.dec10(2)) + e.rnd(e.dec10(5) * e.dec10(7))
    + e.rnd(e.dec10(10) * e.dec10(18)) * e.ite(e.s(30, 1) == 3, -1, 1)
    - e.absv(e.s(38)) * e.ite(e.s(80, 1) == 2, -1, 1),
}


def pairs(ent_list_sensors, fam):
    """(kind, index of derived sensor, indices of its partners) within one table"""
    out = []
    ids = {}
    for i, s in enumerate(ent_list_sensors):
        ids[s.id_] = i  # the later definition of an id wins, as in the result dictionary
    for i, s in enumerate(ent_list_sensors):
        c = S.cls_name(s)
        if c in ("Calculated",):
            out.append(("formula", i, ()))
        elif c in ("Enum", "EnumH", "EnumL", "Enum2", "EnumCalculated"):
            base = s.id_[:-6] if s.id_.endswith("_label") else None
            if base in ids:
                out.append(("label", i, (ids[base],)))
            else:
                out.append(("label-orphan", i, ()))
        elif c == "EnumBitmap4":
            part = [j for j, o in enumerate(ent_list_sensors) if S.cls_name(o) == "Long" and o.offset == s.offset]
            out.append(("bitmap4", i, tuple(part[:1])))
        elif c == "EnumBitmap22":
            hi = [j for j, o in enumerate(ent_list_sensors) if S.cls_name(o) == "Integer" and o.offset == s.offset]
            lo = [j for j, o in enumerate(ent_list_sensors) if S.cls_name(o) == "Integer" and o.offset == s._offsetL]
            out.append(("bitmap22", i, tuple(hi[:1] + lo[:1])))
    return out


class DerivedHarness(Harness):
    def __init__(self, ent, kind, partners):
        self.ent, self.kind, self.partners = ent, kind, tuple(partners)
        self.name = "derived"
        self.params = dict(S.SensorHarness("C13", ent).params, pair=kind, partners=list(partners))

    def _table(self, M):
        cmd, s, nbytes = S.rebuild(M, self.ent)
        inv_cls, sensors = S.LAST_TABLE[M.prefix]
        return cmd, s, nbytes, sensors

    def where(self, s):
        return f"{self.ent['cfg']['family']}:{self.ent['first']}+{self.ent['count']}:{s.id_}({S.cls_name(s)})"

    def symbolic(self, ex: Explorer) -> str:
        G = shimmed()
        cmd, s, nbytes, sensors = self._table(G)
        wrap_sensor_labels(s)
        payload = SBytes.symbolic("B", nbytes)
        resp = S.block_response(G, cmd, payload)
        fam = self.ent["cfg"]["family"]
        handed = []
        G.sensor.decode_bitmap = lambda value, bitmap: handed.append(value) or "<bitmap>"
        try:
            got = s.read(resp)
        except Exception as e:  # noqa: BLE001
            ex.fail("derived sensor raised", f"{type(e).__name__}: {e}")
        if self.kind == "formula":
            f = FORMULAS.get((fam, s.id_))
            if f is None:
                ex.fail("no reference formula for this derived sensor", s.id_)
            env = Env(payload, lambda addr: S.position(cmd, type("o", (), {"offset": addr}), G), True)
            want = f(env)
            tg, tw = to_z3(got), to_z3(want)
            if z3.is_int(tg) and z3.is_real(tw):
                tg = z3.ToReal(tg)
            if z3.is_real(tg) and z3.is_int(tw):
                tw = z3.ToReal(tw)
            ex.check(tg == tw, "derived value differs from its definition over the raw registers")
            return "value"
        if self.kind == "label":
            code = sensors[self.partners[0]].read(resp)
            labels = s._labels
            code = 0 if code is None else code
            if got is None:
                ex.check(z3.And([to_z3(code) != k for k in labels.keys()]) if labels else z3.BoolVal(True),
                         "label missing although the code is in the table")
                return "none"
            ks = [k for k, v in labels.items() if v == got]
            ex.check(z3.Or([to_z3(code) == k for k in ks]) if ks else z3.BoolVal(False),
                     "label is not the table entry of the code reported by the raw sensor")
            return "value"
        if self.kind == "label-orphan":
            return "orphan"
        if len(handed) != 1:
            ex.fail("bitmap sensor did not hand exactly one word to decode_bitmap", str(len(handed)))
        arg = to_z3(handed[0])
        if self.kind == "bitmap4":
            if not self.partners:
                return "orphan"
            code = sensors[self.partners[0]].read(resp)
            ex.check(arg % (2 ** 32) == to_z3(code), "bitmap labels are decoded from a different word than the code sensor")
            return "value"
        if len(self.partners) != 2:
            return "orphan"
        hi = sensors[self.partners[0]].read(resp)
        lo = sensors[self.partners[1]].read(resp)
        ex.check(arg == to_z3(hi) * 65536 + to_z3(lo), "two-word bitmap is not high word x 65536 + low word")
        return "value"

    def concrete(self, inputs):
        R = real()
        cmd, s, nbytes, sensors = self._table(R)
        payload = bytes(inputs.get(f"B[{i}]", 0) for i in range(nbytes))
        resp = S.block_response(R, cmd, payload)
        fam = self.ent["cfg"]["family"]
        w = self.where(s)
        try:
            got = s.read(resp)
        except Exception as e:  # noqa: BLE001
            return {"outcome": "raised", "violation": f"{w}: derived sensor raised {type(e).__name__}", "observed": str(e)}
        viol, exp = None, None
        if self.kind == "formula":
            f = FORMULAS.get((fam, s.id_))
            if f is None:
                return {"outcome": "value", "violation": f"{w}: no reference formula", "observed": ""}
            env = Env(payload, lambda addr: S.position(cmd, type("o", (), {"offset": addr}), R), False)
            exp = f(env)
            if got != exp:
                viol = f"{w}: derived value differs from its definition"
            out = "value"
        elif self.kind == "label":
            code = sensors[self.partners[0]].read(resp)
            exp = s._labels.get(0 if code is None else code)
            if got != exp:
                viol = f"{w}: label is not the table entry of its code"
            out = "value" if got is not None else "none"
        elif self.kind in ("bitmap4", "bitmap22"):
            if self.kind == "bitmap4":
                if not self.partners:
                    return {"outcome": "orphan", "violation": None, "observed": ""}
                word = sensors[self.partners[0]].read(resp)
            else:
                if len(self.partners) != 2:
                    return {"outcome": "orphan", "violation": None, "observed": ""}
                word = sensors[self.partners[0]].read(resp) * 65536 + sensors[self.partners[1]].read(resp)
            exp = ref_decode_bitmap(word, s._labels)
            if got != exp:
                viol = f"{w}: bitmap labels do not list the set bits of the code word(s)"
            out = "value"
        else:
            out = "orphan"
        return {"outcome": out, "violation": viol, "observed": f"{w} payload={payload.hex()[:60]}.. got={got!r} expected={exp!r}"}


def ref_decode_bitmap(word, labels):
    names = []
    for i in range(32):
        if (word >> i) & 1:
            lab = labels.get(i, f"err{i}")
            if lab:
                names.append(lab)
    return ", ".join(names)


def bitmap4_sensors(M):
    """every EnumBitmap4 definition of the three families: (label, sensor)"""
    out = []
    for fam, cls_ in (("ET", M.et.ET), ("ES", M.es.ES), ("DT", M.dt.DT)):
        for name, val in vars(cls_).items():
            if isinstance(val, tuple) and val and all(hasattr(x, "id_") for x in val):
                for s_ in val:
                    if S.cls_name(s_) == "EnumBitmap4" and not any(o is s_ for _, o in out):
                        out.append((f"{fam}:{s_.id_}", s_))
    return out


class BitmapHistory(Harness):
    """Two bitmap-label sensors with different tables see the same code word one after the other in one process
    (same poll or a later one): the second one's text must still list the set bits by *its own* table."""

    name = "bitmap-history"

    def __init__(self, first, second):
        self.first, self.second = first, second
        self.params = {"first": first, "second": second}

    def _run(self, M, bit, extra):
        from vf.common import reset_mutable_class_state, ALL_MODULES
        reset_mutable_class_state(M, modules=ALL_MODULES)
        sens = dict(bitmap4_sensors(M))
        a, b = sens[self.first], sens[self.second]
        word = (1 << bit) | (1 << extra)
        outs = []
        for s_ in (a, b):
            cmd = M.protocol.ModbusRtuReadCommand(0xF7, s_.offset, 2)
            resp = S.block_response(M, cmd, word.to_bytes(4, "big"))
            outs.append(s_.read_value(resp))
        return word, outs[1], b._labels

    def symbolic(self, ex):
        G = shimmed()
        G.sensor.decode_bitmap = G.orig_bitmap
        bit = int(sym_int("bit", 0, 30))
        extra = int(sym_int("extra", 0, 30))
        try:
            word, got, labels = self._run(G, bit, extra)
        except Exception as e:  # noqa: BLE001
            ex.fail("bitmap sensor raised", f"{type(e).__name__}: {e}")
        if got != ref_decode_bitmap(word, dict(labels.items()) if hasattr(labels, "items") else labels):
            ex.fail("bitmap labels do not list the set bits of the code word by the sensor's own table", f"{word:#x}: {got!r}")
        return "value"

    def concrete(self, inputs):
        R = real()
        word, got, labels = self._run(R, inputs.get("bit", 0), inputs.get("extra", 0))
        exp = ref_decode_bitmap(word, labels)
        return {"outcome": "value", "violation": f"{self.second} after {self.first}: bitmap labels not by the sensor's own table" if got != exp else None,
                "observed": f"word={word:#x} got={got!r} expected={exp!r}"}


class BitmapKernel(Harness):
    """decode_bitmap(value, labels) lists exactly the non-empty labels of the set bits: a window of bits symbolic."""

    def __init__(self, table, lo_bit, width, background):
        self.table, self.lo, self.width, self.bg = table, lo_bit, width, background
        self.name = "decode_bitmap"
        self.params = {"table": table, "lo_bit": lo_bit, "width": width, "background": background}

    def _value(self, w):
        mask = ((1 << self.width) - 1) << self.lo
        base = (0xFFFFFFFF if self.bg else 0) & ~mask
        return base + w * (1 << self.lo)

    def symbolic(self, ex):
        from symx.sbv import SBVInt
        G = shimmed()
        G.sensor.decode_bitmap = G.orig_bitmap
        labels = getattr(G.const, self.table)
        # the 32-bit word as a bit-vector (the loop is made of '& 1' and '>> 1'): bits outside the window are fixed
        wv = z3.BitVec("w", self.width)
        ex.inputs["w"] = wv
        base = self._value(0)
        parts = []
        if self.lo + self.width < 32:
            parts.append(z3.BitVecVal(base >> (self.lo + self.width), 32 - self.lo - self.width))
        parts.append(wv)
        if self.lo > 0:
            parts.append(z3.BitVecVal(base & ((1 << self.lo) - 1), self.lo))
        v = z3.Concat(*parts) if len(parts) > 1 else parts[0]
        value = SBVInt(v)
        got = G.sensor.decode_bitmap(value, labels)
        # the reference runs on the same symbolic word: its bit tests are decided by the path condition
        names = []
        for i in range(32):
            if SBool(z3.Extract(i, i, v) == 1):
                lab = labels.get(i, f"err{i}")
                if lab:
                    names.append(lab)
        if got != ", ".join(names):
            ex.fail("decode_bitmap does not list the set bits", f"{got!r} vs {names!r}")
        return "ok"

    def concrete(self, inputs):
        R = real()
        labels = getattr(R.const, self.table)
        value = self._value(inputs["w"])
        got = R.sensor.decode_bitmap(value, labels)
        exp = ref_decode_bitmap(value, labels)
        return {"outcome": "ok", "violation": None if got == exp else f"decode_bitmap[{self.table}]: labels differ from the set bits",
                "observed": f"value={value:#010x} got={got!r} expected={exp!r}"}


BITMAP_TABLES = ("ERROR_CODES", "DIAG_STATUS_CODES", "BMS_ALARM_CODES", "BMS_WARNING_CODES", "DERATING_MODE_CODES")


def tasks(tier, seed):
    R = real()
    cat = [e for e in S.catalog(R, tier) if "error" not in e]
    # keep one entry per table (first sensor index) to enumerate pairs, then one entry per derived sensor
    items = []
    seen = set()
    for e in cat:
        if e["kind"] == "es_runtime" and e["count"] < 93:
            continue
        cmd, s, nbytes = S.rebuild(R, e)
        inv_cls, sensors = S.LAST_TABLE[R.prefix]
        c = S.cls_name(s)
        if c not in ("Calculated", "Enum", "EnumH", "EnumL", "Enum2", "EnumCalculated", "EnumBitmap4", "EnumBitmap22"):
            continue
        for kind, i, partners in pairs(sensors, e["cfg"]["family"]):
            if i != e["sensor"]:
                continue
            key = (e["cfg"]["family"], e["first"], e["count"], s.id_, kind, partners)
            if key in seen:
                continue
            seen.add(key)
            items.append((e, kind, list(partners)))
    n = 24 if tier == "quick" else 48
    ts = [{"name": f"derived-{i}", "fn": "derived", "items": items[i::n]} for i in range(n) if items[i::n]]
    kern = []
    for t in BITMAP_TABLES:
        if tier == "quick":
            for lo in (0, 8, 16, 24):
                for bg in (0, 1):
                    kern.append((t, lo, 8, bg))
        else:
            for bg in (0, 1):
                kern.append((t, 0, 16, bg))
                for lo in (16, 24):
                    kern.append((t, lo, 8, bg))
    m = 16 if tier == "quick" else 30
    ts += [{"name": f"bitmap-{i}", "fn": "bitmap", "items": kern[i::m]} for i in range(m) if kern[i::m]]
    names = [n for n, _ in bitmap4_sensors(R)]
    hist = [(a, b) for a in names for b in names if a != b]
    for i in range(8):
        if hist[i::8]:
            ts.append({"name": f"bitmap-history-{i}", "fn": "bitmap-history", "items": hist[i::8]})
    return ts


def run_task(task):
    G = shimmed()
    if not hasattr(G, "orig_sensor_fns"):
        G.orig_sensor_fns = (G.sensor.decode_day_of_week, G.sensor.decode_months)
        G.orig_bitmap = G.sensor.decode_bitmap
    import importlib
    G.const = importlib.import_module("goodwe.const")
    out = []
    if task["fn"] == "derived":
        for e, kind, partners in task["items"]:
            out.append(explore(DerivedHarness(e, kind, partners), max_paths=50000, max_seconds=300,
                               witnesses_per_outcome=1, trace=len(out) < 3))
    elif task["fn"] == "bitmap-history":
        for a, b in task["items"]:
            out.append(explore(BitmapHistory(a, b), max_paths=2000, max_seconds=300, witnesses_per_outcome=1, trace=len(out) < 1))
    else:
        for t, lo, w, bg in task["items"]:
            out.append(explore(BitmapKernel(t, lo, w, bg), max_paths=70000, max_seconds=1500, witnesses_per_outcome=2,
                               trace=len(out) < 1))
    return {"harnesses": out}


def replay(case):
    p = case["params"]
    if case["harness"] == "bitmap-history":
        return BitmapHistory(p["first"], p["second"]).concrete(case["inputs"])
    if case["harness"] == "decode_bitmap":
        return BitmapKernel(p["table"], p["lo_bit"], p["width"], p["background"]).concrete(case["inputs"])
    return DerivedHarness(p, p["pair"], p["partners"]).concrete(case["inputs"])


def evidence_meta(tier):
    return {
        "level": "model_checking",
        "rule": "one state = one path of (derived sensor, its raw partners) on the same fully symbolic response; the "
                "relation derived == definition(raw) is proven per path; decode_bitmap explored per bit window",
        "bounds": {"pairs": "every Calculated/EnumCalculated/Enum*/EnumBitmap* sensor of every live table",
                   "contents": "all bytes of the response symbolic",
                   "decode_bitmap": "quick: 8-bit windows at bits 0/8/16/24 on all-0 and all-1 backgrounds; thorough: whole "
                                    "low 16-bit word + 8-bit windows of the high word, per label table",
                   "bitmap_history": "every ordered pair of EnumBitmap4 definitions (all families) x every word with one or two "
                                     "bits of 0..30 set: the second sensor decodes the same word right after the first"},
        "outside": ["decode_bitmap over all 2^32 words at once", "float rounding of products (exact rationals, round half even)"],
        "assumptions": ["reference formulas written from the property statement and the comments in the tables "
                        "(checks/c13.py:FORMULAS)", "a derived sensor without a reference formula is reported, not skipped"],
    }
