"""C07 — a response split into two fragments is reassembled exactly."""
from __future__ import annotations

import asyncio

import z3

from symx.core import Explorer, SInt, sym_int, to_z3
from symx.sbytes import SBytes
from symx import vworld
from vf.common import Harness, shimmed, real, explore
from . import transport as TR
from .c04 import _eqz
from .validators import crc16_reference

PROP = "C07"

VARIANTS = ("exact", "minus1", "plus1", "other_request", "symbolic", "stale_tail", "exact_sym", "stale_next_request")


def aa55_response(payload: bytes, rtype=(0x01, 0x89)):
    head = bytes([0xAA, 0x55, 0x7F, 0xC0, rtype[0], rtype[1], len(payload)]) + payload
    return head + sum(head).to_bytes(2, "big")


class Fragments(Harness):
    name = "fragments"

    def __init__(self, framing, keep_alive, count, variant, T=3, retries=1):
        self.framing, self.keep_alive, self.count, self.variant, self.T, self.retries = framing, keep_alive, count, variant, T, retries
        self.params = {"framing": framing, "keep_alive": keep_alive, "count": count, "variant": variant, "T": T, "retries": retries}

    def _make(self, M):
        tcp = self.framing == "tcp"
        if self.variant == "stale_next_request":
            self.count = 7 if tcp else 5
        if self.framing == "aa55d":
            # the identification request of goodwe.discover()/connect(): module-level command, bare UDP protocol object
            class _Bare:
                def __init__(s_, proto, cmd_):
                    s_._protocol, s_._cmd = proto, cmd_

                def set_keep_alive(s_, ka):
                    s_._protocol.keep_alive = ka

                async def _read_from_socket(s_, c):
                    return await c.execute(s_._protocol)
            cmd = M.pkg.DISCOVERY_COMMAND
            inv = _Bare(M.protocol.UdpInverterProtocol("10.0.0.1", 8899, 0, self.T, self.retries), cmd)
        elif self.framing == "aa55":
            inv = M.es.ES("10.0.0.1", 8899, 0, self.T, self.retries)
            cmd = inv._READ_DEVICE_SETTINGS_DATA
        else:
            inv = M.et.ET("10.0.0.1", 502 if tcp else 8899, 0, self.T, self.retries)
            cmd = inv._read_command(35100, self.count)
        inv.set_keep_alive(self.keep_alive)
        return inv, cmd

    def good_sym(self, M, script, data):
        """the unsplit answer with an arbitrary (symbolic) register payload"""
        pl = script.sym_bytes("payload", 2 * self.count)
        n = 2 * self.count
        if self.framing == "aa55":
            head = SBytes(list(bytes([0xAA, 0x55, 0x7F, 0xC0, 0x01, 0x89, n]))) + SBytes.of(pl) if not isinstance(pl, bytes) else \
                bytes([0xAA, 0x55, 0x7F, 0xC0, 0x01, 0x89, n]) + pl
            total = 0
            for b in (head.items if hasattr(head, "items") else head):
                total = total + b
            if isinstance(total, int):
                return bytes(head) + total.to_bytes(2, "big")
            return head + SBytes([(total // 256) % 256, total % 256])
        if self.framing == "tcp":
            return SBytes.of(bytes(data[0:2]) + bytes([0, 0, 0, n + 3, data[6], 3, n])) + SBytes.of(pl) if not isinstance(pl, bytes) \
                else bytes(data[0:2]) + bytes([0, 0, 0, n + 3, data[6], 3, n]) + pl
        core = bytes([data[0], 3, n])
        if isinstance(pl, bytes):
            c = crc16_reference(core + pl)
            return b"\xaa\x55" + core + pl + bytes([c & 255, c >> 8])
        body = SBytes.of(core) + SBytes.of(pl)
        c = M.modbus._modbus_checksum(body)
        return SBytes.of(b"\xaa\x55") + body + SBytes([c % 256, c // 256])

    def good(self, data, reg_shift=0):
        if self.framing == "aa55d":
            body = bytearray(b" " * 64)
            body[0:5] = b"2323G"
            body[5:15] = b"GW5048D-ES"
            body[31:47] = b"95048ESU218W0001" if not reg_shift else b"95048ESU218W0002"
            return aa55_response(bytes(body), (0x01, 0x82))
        if self.framing == "aa55":
            return aa55_response(bytes((i * 7 + 1 + reg_shift) % 256 for i in range(2 * self.count)))
        tcp = self.framing == "tcp"
        if reg_shift:
            # the answer to another request of the same shape: same length, other payload (and checksum)
            d = bytearray(data)
            pos = 8 if tcp else 2
            reg = int.from_bytes(d[pos:pos + 2], "big") + reg_shift
            d[pos:pos + 2] = reg.to_bytes(2, "big")
            data = bytes(d)
            r = TR.valid_response(tcp, data)
            if tcp:
                return r
            return r
        return TR.valid_response(tcp, data)

    def _run(self, M, script):
        T, R = self.T, self.retries
        world = vworld.World(max_time=(R + 3) * (T + 6) + 4 * T, max_transmissions=R + 2)
        obs = TR.Obs()
        obs.pieces = {}
        with world:
            loop = world.new_loop()
            inv, cmd = self._make(M)
            lo = 5 if self.framing == "rtu" else 9


            def on_send(sock, data, n):
                data = bytes(data)
                if self.variant == "stale_next_request":
                    return self._stale_next(M, script, loop, world, sock, data, n, obs)
                good = self.good_sym(M, script, data) if self.variant == "exact_sym" else self.good(data)
                L = len(good)
                if n == 0:
                    s = script.small("split", lo, L - 1)
                    d = script.delay(0, "d")
                    p1 = good[:s]
                    obs.pieces = {"good": good, "s": s, "p1": p1, "d": d}
                    loop.call_later(d, lambda: (not sock.closed) and sock.rx.append(p1))
                    v = self.variant
                    if v == "stale_tail":
                        return 0
                    rem = good[s:]
                    if v in ("exact", "exact_sym"):
                        p2 = rem
                    elif v == "minus1":
                        p2 = rem[:-1]
                    elif v == "plus1":
                        p2 = rem + b"\x00"
                    elif v == "other_request":
                        p2 = self.good(data, reg_shift=1)[s:]
                    else:
                        p2 = script.sym_bytes("p2", len(rem))
                    if len(p2) == 0:
                        return 0
                    e = script.delay(0, "e")
                    obs.pieces.update({"p2": p2, "e": e})
                    # the second piece is sent after the first one has been delivered (also when e == 0: timers with
                    # equal deadlines are not ordered by the loop's heap; datagram *reordering* is not C07's subject)
                    loop.call_later(d, lambda: loop.call_later(e, lambda: (not sock.closed) and sock.rx.append(p2)))
                elif n == 1 and self.variant == "stale_tail":
                    # the tail of the first answer arrives as the only datagram for the retransmission
                    tail = obs.pieces["good"][obs.pieces["s"]:]
                    obs.pieces["p2"] = tail
                    loop.call_later(script.delay(1, "d"), lambda: (not sock.closed) and sock.rx.append(tail))
                return 0
            world.peer_send = on_send
            obs.exc, obs.result, obs.abort = None, None, None
            try:
                obs.result = vworld.run(loop, inv._read_from_socket(cmd))
            except vworld.Hang:
                obs.abort = "hang"
            except vworld.LiveLock as e:
                obs.abort = "livelock: " + str(e)
            except Exception as e:  # noqa: BLE001
                obs.exc = e
            except asyncio.CancelledError as e:
                obs.exc = e
            obs.t_done = world.now
            obs.tx = list(world.transmissions)
            obs.outcome = TR.classify(M, obs.exc) if obs.abort is None else obs.abort
            obs.raw = obs.result.raw_data if obs.result is not None else None
            obs.second = None
            if self.variant == "stale_next_request" and obs.abort is None:
                # the next request on the same object: its complete, conforming answer is exactly as long as the tail
                # the first request never received
                cmd2 = inv._read_command(35200, 2)
                n0 = len(world.transmissions)
                b = {"outcome": None, "raw": None, "good": None}
                try:
                    r2 = vworld.run(loop, inv._read_from_socket(cmd2))
                    b["outcome"], b["raw"] = "response", r2.raw_data
                except (vworld.Hang, vworld.LiveLock) as e:
                    b["outcome"] = type(e).__name__
                except Exception as e:  # noqa: BLE001
                    b["outcome"] = TR.classify(M, e)
                b["ntx"] = len(world.transmissions) - n0
                b["good"] = obs.pieces.get("good2")
                obs.second = b
        return obs

    def _stale_next(self, M, script, loop, world, sock, data, n, obs):
        tcp = self.framing == "tcp"
        good = TR.valid_response(tcp, data)
        reg = int.from_bytes(data[8:10] if tcp else data[2:4], "big")
        if reg == 35100:
            k = sum(1 for x in world.transmissions[:-1])
            if k == 0:
                # first answer: only a leading fragment arrives; what is missing is as long as the next request's answer
                L2 = len(TR.valid_response(tcp, bytes(data[:10]) + (2).to_bytes(2, "big") if tcp else data[:4] + (2).to_bytes(2, "big") + b"\0\0"))
                s = len(good) - L2
                obs.pieces = {"good": good, "s": s, "p1": good[:s], "d": 0}
                loop.call_later(0, lambda: (not sock.closed) and sock.rx.append(good[:s]))
            else:
                loop.call_later(script.delay(1, "d", hi=1), lambda: (not sock.closed) and sock.rx.append(good))
        else:
            obs.pieces["good2"] = good
            loop.call_later(0, lambda: (not sock.closed) and sock.rx.append(good))
        return 0

    def verdict(self, obs, check, fail):
        P = obs.pieces
        v = self.variant
        T = self.T
        if obs.abort is not None:
            fail("request did not terminate", obs.abort)
        good, p1 = P["good"], P["p1"]
        if v == "stale_next_request":
            b = obs.second
            if b is None:
                return
            if not (b["outcome"] == "response" and b["ntx"] == 1 and _bytes_eq(b["raw"], b["good"]) is True):
                fail("a conforming unfragmented answer to the next request was not delivered at once (stale fragment state)",
                     f"{b['outcome']} after {b['ntx']} transmission(s)")
            return
        if v in ("exact", "exact_sym"):
            # both pieces within the timeout => success without retransmission, exactly the unsplit response
            in_time = _lt(P["d"] + P["e"], T)
            if in_time is True or (in_time is not False and self._feasible(in_time)):
                ok = obs.outcome == "response" and len(obs.tx) == 1 and _bytes_eq(obs.raw, good)
                if in_time is True:
                    if not ok:
                        fail("fragments that arrived in time were not reassembled into the unsplit response", obs.outcome)
                else:
                    if ok is not True:
                        check(z3.Not(in_time) if ok is False else z3.Implies(in_time, ok),
                              "fragments that arrived in time were not reassembled into the unsplit response", obs.outcome)
            if obs.outcome == "response":
                eq = _bytes_eq(obs.raw, good)
                if eq is not True:
                    check(eq, "a successful result differs from the unsplit response")
        elif obs.outcome == "response":
            raw = obs.raw
            built = _startswith(raw, p1) if len(raw) >= len(p1) and len(raw) == len(p1) + len(P.get("p2", b"")) else False
            if self.framing in ("rtu", "aa55", "aa55d") or v == "stale_tail":
                if v == "symbolic":
                    # arbitrary second piece: a success must be exactly piece1 || piece2 with a correct checksum over
                    # the delivered bytes (any such frame is indistinguishable from a genuine answer)
                    glued = SBytes.of(p1) + SBytes.of(P["p2"])
                    eq = _bytes_eq(raw, glued)
                    # (a second piece that is accepted *on its own* for a later transmission is not built from the
                    # fragment: whether such a datagram is a well-formed answer is C01's subject)
                    alone = _bytes_eq(raw, P["p2"])
                    if eq is not True and alone is not True:
                        conds = [c for c in (eq, alone) if c is not False]
                        check(z3.Or([_z3b(c) for c in conds]) if conds else False,
                              "a successful result is not the concatenation of the two pieces")
                    if self.framing in ("aa55", "aa55d"):
                        items = [to_z3(b) for b in SBytes.of(raw).items]
                        check(z3.Sum(items[:-2]) == items[-2] * 256 + items[-1], "a result with a wrong checksum was delivered")
                elif v == "stale_tail":
                    # the fragment counts as 'left over' when it was received before the retransmission went out (a
                    # fragment that arrives after it is indistinguishable from an answer to the retransmission)
                    if built is not False and len(obs.tx) > 1:
                        before = _lt(P["d"], obs.tx[1][0])
                        if before is True:
                            fail("a fragment left over from an earlier transmission was combined with data for a later transmission")
                        elif before is not False:
                            check(z3.Not(z3.And(before, _z3b(built))),
                                  "a fragment left over from an earlier transmission was combined with data for a later transmission")
                else:
                    # a foreign tail that makes a frame with a correct checksum cannot be told from a genuine answer
                    # (header-only split of two answers of the same shape): only checksum-invalid glue is a violation
                    if built is not False and not self._wellformed(raw):
                        fail("a result was built from a fragment and something else than its remainder", v)

    def _wellformed(self, raw):
        if not isinstance(raw, (bytes, bytearray)):
            return False
        raw = bytes(raw)
        if self.framing == "rtu":
            return len(raw) >= 7 and len(raw) == raw[4] + 7 and crc16_reference(raw[2:-2]) == raw[-2] + 256 * raw[-1]
        if self.framing in ("aa55", "aa55d"):
            return len(raw) >= 9 and len(raw) == raw[6] + 9 and sum(raw[:-2]) == raw[-2] * 256 + raw[-1]
        return True

    def _feasible(self, cond):
        from symx.core import cur
        return cur().feasible(cond) if not isinstance(cond, bool) else cond

    def symbolic(self, ex):
        G = shimmed()
        if self.variant == "exact_sym":
            from .c08 import FunctionalCrc
            fc, orig = FunctionalCrc(), G.orig_checksum

            def crc(data):
                items = list(data.items) if hasattr(data, "items") and not isinstance(data, dict) else list(data)
                return orig(bytes(items)) if all(isinstance(b, int) for b in items) else fc(data)
            G.modbus._modbus_checksum = crc
        else:
            G.modbus._modbus_checksum = TR.hybrid_crc(G.orig_checksum)
        script = TR.SymScript([], self.T)
        obs = self._run(G, script)

        def check(c, label, detail=""):
            if c is True:
                return
            if c is False:
                ex.fail(label, detail)
            ex.check(c, label, detail)
        self.verdict(obs, check, ex.fail)
        return obs.outcome.split(":")[0] + f"/{len(obs.tx)}tx"

    def concrete(self, inputs):
        R = real()
        script = TR.DictScript(inputs, self.T)
        obs = self._run(R, script)
        viol = []

        class Stop(Exception):
            pass

        def fail(label, detail=""):
            viol.append((label, detail))
            raise Stop()

        def check(c, label, detail=""):
            if isinstance(c, z3.ExprRef):
                c = z3.is_true(z3.simplify(c))
            if c is not True and (c is False or not bool(c)):
                fail(label, detail)
        self._feasible = lambda c: bool(c)
        try:
            self.verdict(obs, check, fail)
        except Stop:
            pass
        tag = f"{self.framing}{' keep-alive' if self.keep_alive else ''} second piece {self.variant}"
        P = obs.pieces
        return {"outcome": obs.outcome.split(":")[0] + f"/{len(obs.tx)}tx", "violation": f"{tag}: {viol[0][0]}" if viol else None,
                "observed": f"split={P.get('s')} d={P.get('d')} e={P.get('e')} p1={bytes(P['p1']).hex()} p2={bytes(P.get('p2', b'')).hex() if isinstance(P.get('p2', b''), (bytes, bytearray)) else P.get('p2')} "
                            f"outcome={obs.outcome} tx={[t for t, _, _ in obs.tx]} result={bytes(obs.raw).hex() if obs.raw is not None else None}"}


def _lt(a, b):
    if isinstance(a, (int, float)) and isinstance(b, (int, float)):
        return a < b
    return to_z3(a) < to_z3(b)


def _z3b(x):
    return z3.BoolVal(x) if isinstance(x, bool) else x


def _bytes_eq(a, b):
    if a is None or b is None or len(a) != len(b):
        return False
    if isinstance(a, (bytes, bytearray)) and isinstance(b, (bytes, bytearray)):
        return bytes(a) == bytes(b)
    return SBytes.of(a).eq_expr(b) if not isinstance(a, (bytes, bytearray)) else SBytes.of(b).eq_expr(a)


def _startswith(raw, p1):
    head = raw[:len(p1)]
    return _bytes_eq(head, p1)


def tasks(tier, seed):
    ts = []
    counts = (2,) if tier == "quick" else (1, 2, 7, 61)
    for framing in ("rtu", "tcp", "aa55"):
        for ka in (False, True):
            for c in counts:
                for v in VARIANTS:
                    if v in ("symbolic", "exact_sym") and framing == "rtu":
                        continue   # a symbolic remainder under an uninterpreted CRC may 'pass' by collision: AA55 and TCP cover it
                    if v == "stale_next_request" and (framing == "aa55" or c != counts[0]):
                        continue
                    ts.append({"name": f"frag-{framing}-{ka}-{c}-{v}", "framing": framing, "ka": ka, "count": c, "variant": v})
    # the identification request of discover()/connect() (module-level command on a bare UDP protocol object)
    for ka in (False, True):
        for v in ("exact", "minus1", "plus1", "other_request", "stale_tail"):
            ts.append({"name": f"frag-aa55d-{ka}-{v}", "framing": "aa55d", "ka": ka, "count": 32, "variant": v})
    return ts


def run_task(task):
    h = Fragments(task["framing"], task["ka"], task["count"], task["variant"])
    return {"harnesses": [explore(h, max_paths=60000, max_seconds=1500, witnesses_per_outcome=1)]}


def replay(case):
    p = case["params"]
    return Fragments(p["framing"], p["keep_alive"], p["count"], p["variant"], p["T"], p["retries"]).concrete(case["inputs"])


def evidence_meta(tier):
    return {
        "level": "model_checking",
        "rule": "one state = one path of a read request whose answer arrives in two pieces in the virtual world: split "
                "point enumerated over every position from the header length to L-1, delays of both pieces symbolic, "
                "second piece exact / one byte short / one byte long / tail of another answer / symbolic bytes; plus the "
                "stale-tail scenario (first fragment only, tail delivered for the retransmission)",
        "bounds": {"framings": "Modbus RTU/UDP, Modbus/TCP, AA55/UDP (ES settings command; the identification command of discover()/connect() on a bare protocol object)", "keep_alive": "on/off", "counts": "2 (quick) / 1,2,7,61 (thorough)",
                   "delays": "0..2T+1 ticks each (symbolic), T=3", "retries": 1},
        "outside": ["more than two fragments", "symbolic payload / symbolic remainder on Modbus RTU (CRC uninterpreted on symbolic data: a "
                    "'passing' foreign remainder would be a 2^-16 collision artefact); the AA55 additive checksum is executed "
                    "exactly"],
        "assumptions": ["'within the timeout' = the second piece arrives less than T ticks after the transmission"],
    }
