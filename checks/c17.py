"""C17 — a written setting reads back as written and touches only its own registers."""
from __future__ import annotations

import z3

from symx.core import Explorer, SInt, SReal, SBool, sym_int, to_z3, concrete_of
from symx.sbytes import SBytes
from symx.shims import SDateTime, datetime_valid_expr
from vf.common import Harness, shimmed, real, explore
from . import models, sensors as S, fp_lemma
from .c11 import SETTING_CFGS
from .c16 import _eq_expr
from .fakeinv import const_crc, drive

PROP = "C17"

INT_DOMAIN = {"Integer": (0, 0xFFFF), "IntegerS": (-32768, 32767), "Long": (0, 2 ** 32 - 1),
              "LongS": (-2 ** 31, 2 ** 31 - 1), "ByteH": (-128, 127), "ByteL": (-128, 127)}
SCALED = {"Voltage": (10, 0, 0xFFFF), "Current": (10, 0, 0xFFFF), "CurrentS": (10, -32768, 32767)}
GROUPS = ("EcoModeV1", "EcoModeV2", "Schedule", "PeakShavingMode")


def encodable(st):
    c = S.cls_name(st)
    return c in INT_DOMAIN or c in SCALED or c in GROUPS or c in ("Decimal", "Timestamp")


def expected_register(inv, st):
    """Where the layout of the eco-mode groups puts a group's on/off switch: the 4th register of a 4-register (v1)
    group, the 3rd of a 6-register (v2) group — independent of the library's eco_mode_N_switch definition.  For all
    other settings the register is the one the definition names (no independent register map exists)."""
    import re as _re
    m = _re.fullmatch(r"eco_mode_(\d)_switch", st.id_)
    if m:
        g = inv._settings.get(f"eco_mode_{m.group(1)}")
        if g is not None:
            n = (g.size_ + 1) // 2
            return g.offset + (3 if n == 4 else 2)
    return st.offset


class WriteRead(Harness):
    def __init__(self, cfg, sid, transport="udp", seq=False):
        self.cfg, self.sid, self.transport, self.seq = cfg, sid, transport, seq
        self.name = "write-read"
        self.params = {"cfg": cfg, "id": sid, "transport": transport, "seq": seq}

    # -- value construction ----------------------------------------------------------------------------------
    def sym_value(self, st, ex, sfx=""):
        """-> (value to pass to write_setting, reference bytes (list of z3 terms; None = keep old byte),
               comparison closure for the value read back)"""
        c = S.cls_name(st)
        if c in INT_DOMAIN:
            lo, hi = INT_DOMAIN[c]
            v = sym_int("v" + sfx, lo, hi)
            n = 1 if c in ("ByteH", "ByteL") else (4 if c in ("Long", "LongS") else 2)
            u = v.e % (256 ** n)
            ref = [(u / (256 ** k)) % 256 for k in range(n - 1, -1, -1)]
            if c == "ByteH":
                ref = ref + [None]
            elif c == "ByteL":
                ref = [None] + ref
            return v, ref, lambda got: _eq_expr(got, v)
        if c in SCALED or c == "Decimal":
            scale, lo, hi = SCALED[c] if c in SCALED else (st.scale, -32768, 32767)
            k = sym_int("k" + sfx, lo, hi)
            v = SReal(z3.ToReal(k.e) / scale)  # the multiple k/scale of the setting's resolution (exact; see K-FP)
            u = k.e % 65536
            return v, [(u / 256) % 256, u % 256], lambda got: _eq_expr(got, v)
        if c == "Timestamp":
            f = [sym_int("year" + sfx, 2000, 2255), sym_int("month" + sfx, 1, 12), sym_int("day" + sfx, 1, 31),
                 sym_int("hour" + sfx, 0, 23), sym_int("minute" + sfx, 0, 59), sym_int("second" + sfx, 0, 59)]
            ex.assume(datetime_valid_expr(*[x.e for x in f]))
            v = SDateTime(*f)
            return v, [f[0].e - 2000] + [x.e for x in f[1:]], lambda got: _eq_expr(got, v)
        if c in GROUPS:
            n = 8 if c == "EcoModeV1" else 12
            vb = SBytes.symbolic("v" + sfx, n)
            kind, valid, fields = S.reference(c, st, [to_z3(b) for b in vb])
            ex.assume(valid)

            def cmp(got):
                if got is None or not hasattr(got, "start_h"):
                    return False
                return z3.And([to_z3(getattr(got, name)) == t for name, t in fields.items()])
            return vb, [to_z3(b) for b in vb], cmp
        raise KeyError(c)

    def conc_value(self, st, inputs, sfx=""):
        c = S.cls_name(st)
        if c in INT_DOMAIN:
            return inputs.get("v" + sfx, 0)
        if c in SCALED or c == "Decimal":
            scale = SCALED[c][0] if c in SCALED else st.scale
            return inputs.get("k" + sfx, 0) / scale
        if c == "Timestamp":
            import datetime
            return datetime.datetime(inputs.get("year" + sfx, 2000), inputs.get("month" + sfx, 1), inputs.get("day" + sfx, 1),
                                     inputs.get("hour" + sfx, 0), inputs.get("minute" + sfx, 0), inputs.get("second" + sfx, 0))
        n = 8 if c == "EcoModeV1" else 12
        return bytes(inputs.get(f"v{sfx}[{i}]", 0) for i in range(n))

    # -- run ---------------------------------------------------------------------------------------------------
    def _setup(self, M, default, crc):
        """a fresh inverter object and simulated inverter for every path (no state may leak between paths)"""
        inv, fake = models.make(M, self.cfg, crc=crc, transport=self.transport)
        info = range(0x88b8, 0x88b8 + 0x21) if self.cfg["family"] == "ET" else range(0x7531, 0x7531 + 0x28)
        fake.regs = {a: v for a, v in fake.regs.items() if a in info}
        fake.default = default
        fake.log.clear()
        fake.raw_log.clear()
        return inv, fake

    def symbolic(self, ex):
        G = shimmed()
        G.modbus._modbus_checksum = const_crc
        G.sensor.decode_day_of_week = lambda d: "<days>"
        G.sensor.decode_months = lambda d: "<months>"
        inv, fake = self._setup(G, lambda a: sym_int(f"p{a}", 0, 0xFFFF), const_crc)
        st = inv._settings[self.sid]
        count = (st.size_ + 1) // 2
        out = "roundtrip"
        for rnd in range(2 if self.seq else 1):
            sfx = "" if rnd == 0 else "_2"
            if rnd == 1:
                # the registers change by another route (app, display) before the same setting is written again
                for a in range(st.offset, st.offset + count):
                    fake.regs[a] = sym_int(f"q{a}", 0, 0xFFFF)
                fake.log.clear()
            out = self._round(ex, G, inv, fake, st, count, sfx)
        return out

    def _round(self, ex, G, inv, fake, st, count, sfx):
        if sfx and S.cls_name(st) in GROUPS:
            # groups: the same value is written again (every further symbolic group would square the path count)
            value, ref, cmp = self._first
        else:
            value, ref, cmp = self.sym_value(st, ex, sfx)
            self._first = (value, ref, cmp)
        before = {a: fake.get(a) for a in range(st.offset - 1, st.offset + count + 1)}
        try:
            drive(inv.write_setting(self.sid, value))
        except Exception as e:  # noqa: BLE001
            ex.fail("write_setting raised for a value of the encodable domain", f"{type(e).__name__}: {e}")
        writes = [op for op in fake.log if op[0] in ("write", "multi", "aa55-write")]
        if len(writes) != 1:
            ex.fail("write_setting did not transmit exactly one write", str([o[:2] for o in fake.log]))
        w = writes[0]
        ex.check(w[1] == st.offset, "write addressed to the wrong register", f"{w[1]} != {st.offset}")
        if expected_register(inv, st) != st.offset:
            ex.fail("the switch is not the on/off register of its own eco-mode group", f"{st.offset} != {expected_register(inv, st)}")
        payload = list(w[2])
        ex.check(len(payload) == 2 * count, "write covers the wrong number of registers", f"{len(payload)} bytes, {count} registers")
        if w[0] == "multi":
            ex.check(w[3] == count and w[4] == 2 * count, "write-multiple announces wrong register/byte count")
        old = []
        for a in range(st.offset, st.offset + count):
            o = before[a]
            old += [to_z3(o) / 256 % 256, to_z3(o) % 256]
        conj = []
        for i, r in enumerate(ref):
            want = old[i] if r is None else r
            conj.append(to_z3(payload[i]) == want)
        ex.check(z3.And(conj), "written bytes are not the encoding of the value (or clobber the other half of the register)")
        for a in (st.offset - 1, st.offset + count):
            ex.check(to_z3(fake.get(a)) == to_z3(before[a]), "a neighbouring register changed")
        try:
            got = drive(inv.read_setting(self.sid))
        except Exception as e:  # noqa: BLE001
            ex.fail("read_setting failed after a successful write", f"{type(e).__name__}: {e}")
        eq = cmp(got)
        if eq is True:
            return "roundtrip"
        if eq is False:
            ex.fail("setting does not read back as written", f"written={value!r} read={got!r}")
        ex.check(eq, "setting does not read back as written", f"read={got!r}")
        return "roundtrip"

    def concrete(self, inputs):
        R = real()
        inv, fake = self._setup(R, lambda a: inputs.get(f"p{a}", 0), None)
        st = inv._settings[self.sid]
        count = (st.size_ + 1) // 2
        r = None
        for rnd in range(2 if self.seq else 1):
            sfx = "" if rnd == 0 else "_2"
            if rnd == 1:
                for a in range(st.offset, st.offset + count):
                    fake.regs[a] = inputs.get(f"q{a}", 0)
                fake.log.clear()
            r = self._conc_round(R, inv, fake, st, count, inputs, sfx)
            if r["violation"]:
                if rnd == 1 and "sentinel" not in r["violation"]:
                    r["violation"] += " (second write after an external change)"
                return r
        return r

    def _conc_round(self, R, inv, fake, st, count, inputs, sfx):
        c = S.cls_name(st)
        tag = f"{self.cfg['family']}/{self.transport}:{self.sid}({c})"
        value = self.conc_value(st, inputs, "" if c in GROUPS else sfx)
        before = {a: fake.get(a) for a in range(st.offset - 1, st.offset + count + 1)}
        try:
            drive(inv.write_setting(self.sid, value))
        except Exception as e:  # noqa: BLE001
            return {"outcome": "raised", "violation": f"{tag}: write_setting raised {type(e).__name__}", "observed": f"value={value!r}: {e}"}
        writes = [op for op in fake.log if op[0] in ("write", "multi", "aa55-write")]
        if len(writes) != 1:
            return {"outcome": "writes", "violation": f"{tag}: not exactly one write transmitted", "observed": str(fake.log)[:300]}
        w = writes[0]
        payload = bytes(w[2])
        exp = self._conc_ref(st, c, value, before, count, inputs, sfx)
        obs = f"value={value!r} prior={[hex(before[a]) for a in sorted(before)]} write={w[0]}@{w[1]} bytes={payload.hex()} expected={exp.hex()}"
        if w[1] != st.offset or len(payload) != 2 * count or payload != exp:
            return {"outcome": "write", "violation": f"{tag}: wrong register, length or encoding written", "observed": obs}
        if expected_register(inv, st) != st.offset:
            return {"outcome": "write", "violation": f"{tag}: the switch is not the on/off register of its own eco-mode group",
                    "observed": obs + f" group layout puts it at {expected_register(inv, st)}"}
        for a in (st.offset - 1, st.offset + count):
            if fake.get(a) != before[a]:
                return {"outcome": "neighbour", "violation": f"{tag}: neighbouring register changed", "observed": obs}
        try:
            got = drive(inv.read_setting(self.sid))
        except Exception as e:  # noqa: BLE001
            return {"outcome": "readfail", "violation": f"{tag}: read_setting failed after the write ({type(e).__name__})", "observed": obs}
        same = self._conc_same(c, st, value, got)
        v = None
        if not same:
            allones = payload == b"\xff" * len(payload) and c in ("Integer", "Long", "Voltage", "Current")
            v = f"{c}: all-ones value reads back as 0 (0xFFFF sentinel)" if allones else f"{tag}: does not read back as written"
        return {"outcome": "roundtrip", "violation": v, "observed": obs + f" read={got!r}"}

    def _conc_ref(self, st, c, value, before, count, inputs, sfx=""):
        if c in INT_DOMAIN:
            n = 1 if c in ("ByteH", "ByteL") else (4 if c in ("Long", "LongS") else 2)
            b = (value % (256 ** n)).to_bytes(n, "big")
            old = before[st.offset].to_bytes(2, "big")
            if c == "ByteH":
                return b + old[1:2]
            if c == "ByteL":
                return old[0:1] + b
            return b
        if c in SCALED or c == "Decimal":
            return (inputs.get("k" + sfx, 0) % 65536).to_bytes(2, "big")
        if c == "Timestamp":
            return bytes([value.year - 2000, value.month, value.day, value.hour, value.minute, value.second])
        return value

    def _conc_same(self, c, st, value, got):
        if c in GROUPS:
            n = len(value)
            r = S.SensorHarness("C12", {"cfg": self.cfg, "block": -1, "sensor": 0, "id": st.id_, "cls": c, "first": st.offset,
                                       "count": n // 2, "kind": "setting"})
            if got is None or not hasattr(got, "start_h"):
                return False
            U = lambda x: int.from_bytes(x, "big", signed=True)  # noqa: E731
            if c == "EcoModeV1":
                f = {"start_h": U(value[0:1]), "start_m": U(value[1:2]), "end_h": U(value[2:3]), "end_m": U(value[3:4]),
                     "power": U(value[4:6]), "on_off": U(value[6:7]), "day_bits": U(value[7:8])}
            else:
                f = {"start_h": U(value[0:1]), "start_m": U(value[1:2]), "end_h": U(value[2:3]), "end_m": U(value[3:4]),
                     "on_off": U(value[4:5]), "day_bits": U(value[5:6]), "power": U(value[6:8]), "soc": U(value[8:10]),
                     "month_bits": U(value[10:12])}
            return all(getattr(got, k) == v for k, v in f.items())
        return got == value


def tasks(tier, seed):
    R = real()
    items, seen = [], set()
    for cfg in SETTING_CFGS:
        inv, _ = models.make(R, cfg)
        for st in inv.settings():
            if not encodable(st):
                continue
            if cfg["family"] == "ES" and S.cls_name(st) not in GROUPS and S.cls_name(st) != "ByteH":
                continue  # ES block settings have no register address (written through dedicated commands: C19)
            c = S.cls_name(st)
            if tier == "quick" and c in GROUPS:
                k = (cfg["family"], c, st.offset > 30000)
                if k in seen:
                    continue
                seen.add(k)
            k2 = (cfg["family"], st.id_, st.offset, c)
            if k2 in seen:
                continue
            seen.add(k2)
            items.append((cfg, st.id_, "udp"))
            if tier == "thorough" and cfg["family"] != "ES":
                items.append((cfg, st.id_, "tcp"))
    seqs, seen_seq = [], set()
    for cfg, sid, tr in list(items):
        inv, _ = models.make(R, cfg)
        c = S.cls_name(inv._settings[sid])
        k = (cfg["family"], c, inv._settings[sid].offset > 30000)
        if k in seen_seq:
            continue
        seen_seq.add(k)
        seqs.append((cfg, sid, tr, True))
    items = [(a, b, c, False) for a, b, c in items] + seqs
    items.sort(key=lambda t: 0 if "eco_mode" in t[1] and "switch" not in t[1] or t[1] == "peak_shaving_mode" else 1)
    n = 32 if tier == "quick" else 64
    ts = [{"name": f"wr-{i}", "fn": "wr", "items": items[i::n]} for i in range(n) if items[i::n]]
    ts += fp_lemma.tasks(tier)
    return ts


def run_task(task):
    if task["fn"] == "fp":
        return fp_lemma.run_task(task)
    G = shimmed()
    if not hasattr(G, "orig_sensor_fns"):
        G.orig_sensor_fns = (G.sensor.decode_day_of_week, G.sensor.decode_months)
        G.orig_bitmap = G.sensor.decode_bitmap
    out = []
    for cfg, sid, tr, seq in task["items"]:
        out.append(explore(WriteRead(cfg, sid, tr, seq), max_paths=20000, max_seconds=600, witnesses_per_outcome=1,
                           trace=len(out) < 2))
    return {"harnesses": out}


def replay(case):
    if case["harness"].startswith("lemma"):
        return fp_lemma.replay(case)
    p = case["params"]
    return WriteRead(p["cfg"], p["id"], p["transport"], p.get("seq", False)).concrete(case["inputs"])


def evidence_meta(tier):
    return {
        "level": "model_checking",
        "rule": "one state = one path of write_setting(id, v); read_setting(id) against the simulated inverter with symbolic "
                "value and symbolic prior content of the target registers and both neighbours; K-FP: one QF_FP query per "
                "(encoder, scale)",
        "bounds": {"settings": "every setting of ET and DT with an encoding, ES eco-mode groups and switches (AA55 and Modbus)",
                   "values": "whole encodable domain symbolic (integers: full range; scaled: every multiple k/scale; "
                             "timestamps: every valid date 2000..2255; groups: every valid 8/12-byte content)",
                   "transports": "Modbus RTU/UDP + AA55 (quick), plus Modbus/TCP (thorough)",
                   "K-FP": "k over the full 16-bit range, IEEE-754 binary64, RNE"},
        "outside": ["string-typed values passed to encode_value", "values that are not multiples of the resolution"],
        "assumptions": ["in the symx path a scaled value is the exact rational k/scale; the binary64 rounding of "
                        "int(float(v)*scale) is decided separately by lemma K-FP on the real encode functions",
                        "simulated inverter stores what is written and echoes it (DESIGN 0.4)"],
    }
