"""Scenario runner for the transport properties (C04-C10): the real goodwe.protocol on the real asyncio transports in
the virtual world of symx/vworld.py, against a scripted peer whose per-transmission behaviour (kind, delays,
parameters) is supplied by a `script` object — symbolic (SymScript) during exploration, concrete (DictScript) in
replay."""
from __future__ import annotations

import errno

import z3

from symx.core import SInt, SBool, sym_int, cur, to_z3
from symx.sbytes import SBytes
from symx import vworld
from vf.common import shimmed, real
from .validators import crc16_reference, CrcStub

KINDS = ("drop", "answer", "short_garbage", "bad_checksum", "exception", "two_fragments", "lone_fragment", "duplicate",
         "peer_closes", "send_error", "sym_garbage", "late_answer", "dup_fragment", "dup_exception")
K = {n: i for i, n in enumerate(KINDS)}
ERRNOS = (errno.ECONNREFUSED, errno.ENETUNREACH, errno.EHOSTUNREACH, errno.ECONNRESET)
CONNECT = ("ok", "refused", "unreachable", "never")


# ---------------------------------------------------------------------------------------------------------------
# scripts
# ---------------------------------------------------------------------------------------------------------------
class SymScript:
    """Symbolic script: every choice is a solver variable named after its position."""

    def __init__(self, kinds_allowed, T, max_delay=None):
        self.allowed = [K[k] if isinstance(k, str) else k for k in kinds_allowed]
        self.T = T
        self.max_delay = 2 * T + 1 if max_delay is None else max_delay
        self.cache = {}

    def _v(self, name, lo, hi):
        if name not in self.cache:
            self.cache[name] = sym_int(name, lo, hi)
        return self.cache[name]

    def kind(self, i, req=0):
        name = f"k{req}_{i}"
        if name not in self.cache:
            v = sym_int(name, 0, len(KINDS) - 1)
            cur().assume(z3.Or([v.e == a for a in self.allowed]))
            self.cache[name] = int(v)      # enumerate the alphabet at this position (fork per kind)
        return self.cache[name]

    def delay(self, i, which="d", req=0, hi=None):
        return self._v(f"{which}{req}_{i}", 0, self.max_delay if hi is None else hi)

    def small(self, name, lo, hi):
        """a small enumerated parameter (split point class, errno index, exception code)"""
        key = "p_" + name
        if key not in self.cache:
            self.cache[key] = int(sym_int(key, lo, hi))
        return self.cache[key]

    def value(self, name, lo, hi):
        return self._v("v_" + name, lo, hi)

    def sym_bytes(self, name, n):
        return SBytes.symbolic("g_" + name, n)


class DictScript:
    def __init__(self, inputs, T, max_delay=None):
        self.inputs, self.T = inputs, T
        self.max_delay = 2 * T + 1 if max_delay is None else max_delay

    def kind(self, i, req=0):
        return self.inputs.get(f"k{req}_{i}", 0)

    def delay(self, i, which="d", req=0, hi=None):
        return self.inputs.get(f"{which}{req}_{i}", 0)

    def small(self, name, lo, hi):
        return self.inputs.get("p_" + name, lo)

    def value(self, name, lo, hi):
        return self.inputs.get("v_" + name, lo)

    def sym_bytes(self, name, n):
        return bytes(self.inputs.get(f"g_{name}[{i}]", 0) for i in range(n))


# ---------------------------------------------------------------------------------------------------------------
# frames
# ---------------------------------------------------------------------------------------------------------------
def valid_response(tcp, request: bytes, payload=None):
    """conforming answer to a Modbus read request (payload: 2*count bytes carrying the register number as a tag)"""
    if tcp:
        comm, fn, reg, count = request[6], request[7], int.from_bytes(request[8:10], "big"), int.from_bytes(request[10:12], "big")
    else:
        comm, fn, reg, count = request[0], request[1], int.from_bytes(request[2:4], "big"), int.from_bytes(request[4:6], "big")
    if payload is None:
        payload = (reg.to_bytes(2, "big") * count)[:2 * count]
    if tcp:
        pdu = bytes([comm, fn, len(payload)]) + payload
        return request[0:2] + b"\x00\x00" + len(pdu).to_bytes(2, "big") + pdu
    core = bytes([comm, fn, len(payload)]) + payload
    c = crc16_reference(core)
    return b"\xaa\x55" + core + bytes([c & 0xFF, c >> 8])


def exception_response(tcp, request: bytes, code):
    if tcp:
        comm, fn = request[6], request[7]
        pdu = [comm, fn | 0x80, code]
        return SBytes(list(request[0:2]) + [0, 0, 0, 3] + pdu)
    comm, fn = request[0], request[1]
    core = [comm, fn | 0x80, code]
    if isinstance(code, int):
        c = crc16_reference(bytes(core))
        return bytes([0xAA, 0x55] + core + [c & 0xFF, c >> 8])
    raise TypeError("symbolic exception code on the checksummed framing is enumerated by the script")


def hybrid_crc(orig):
    """CRC for the shimmed copy: the real function on concrete data, an uninterpreted value on symbolic data"""
    stub = CrcStub()

    def crc(data):
        items = list(data.items) if hasattr(data, "items") and not isinstance(data, dict) else list(data)
        if all(isinstance(b, int) for b in items):
            return orig(bytes(items))
        return stub(data)
    return crc


# ---------------------------------------------------------------------------------------------------------------
# the scenario
# ---------------------------------------------------------------------------------------------------------------
class Obs:
    pass


class Scenario:
    def __init__(self, transport="udp", keep_alive=False, T=2, retries=1, count=2, register=35100):
        self.transport, self.keep_alive, self.T, self.retries = transport, keep_alive, T, retries
        self.count, self.register = count, register
        self.tcp = transport == "tcp"
        self.aa55 = transport == "aa55"     # ES family: AA55 framing over UDP

    def params(self):
        return {"transport": self.transport, "keep_alive": self.keep_alive, "T": self.T, "retries": self.retries}

    def make_inverter(self, M, comm_addr=0):
        if self.aa55:
            inv = M.es.ES("10.0.0.1", 8899, comm_addr, self.T, self.retries)
            inv.set_keep_alive(self.keep_alive)
            return inv
        inv = M.et.ET("10.0.0.1", 502 if self.tcp else 8899, comm_addr, self.T, self.retries)
        inv.set_keep_alive(self.keep_alive)
        return inv

    def peer(self, world, loop_of, script, req_index_of, delivered):
        """returns (on_send, on_connect) implementing the scripted peer"""
        tcp = self.tcp
        T = self.T

        cur_req = [0]
        self.delivered_reqs = []
        self.delivered_count = [0]     # ordinal of the items put into socket queues (compared with World.recv_count)

        def deliver(sock, item, when_delay, tag):
            loop = loop_of()
            g = self.generation[0]
            req_of_item = cur_req[0]

            def cb():
                if sock.closed or g != self.generation[0]:
                    return      # datagrams still in flight when their request has completed are lost (see history.py)
                sock.rx.append(item)
                delivered.append((world.now, tag, sock.fd))
                self.delivered_count[0] += 1
                self.delivered_reqs.append((world.now, req_of_item, self.delivered_count[0]))
            loop.call_later(when_delay, cb)

        def on_send(sock, data, n):
            data = bytes(data)
            req = req_index_of(data)
            cur_req[0] = req
            i = sum(1 for (_, d, _) in world.transmissions[:-1] if req_index_of(bytes(d)) == req)
            k = script.kind(i, req)
            name = KINDS[k]
            if name == "drop":
                return 0
            if name == "send_error":
                return ERRNOS[script.small(f"errno{req}_{i}", 0, len(ERRNOS) - 1)]
            d = script.delay(i, "d", req)
            if self.aa55:
                body = bytes((7 * x + 3) % 256 for x in range(20))
                head = bytes([0xAA, 0x55, 0x7F, 0xC0, 0x01, 0x86, len(body)]) + body
                good = head + sum(head).to_bytes(2, "big")
            else:
                good = valid_response(tcp, data)
            if name == "answer":
                deliver(sock, good, d, "answer")
            elif name == "late_answer":
                deliver(sock, good, T + 1 + d, "late")
            elif name == "short_garbage":
                deliver(sock, b"\xaa\x55\x01", d, "garbage")
            elif name == "bad_checksum":
                bad = bytearray(good)
                if tcp:
                    bad[8] ^= 0x02      # wrong byte count: the only structural check Modbus/TCP has
                else:
                    bad[-1] ^= 0x01
                deliver(sock, bytes(bad), d, "garbage")
            elif name == "exception" and self.aa55:
                # AA55 has no exception frames: an answer of another response type (checksum correct) instead
                other = bytearray(good)
                other[5] = 0x89
                other[-2:] = sum(other[:-2]).to_bytes(2, "big")
                deliver(sock, bytes(other), d, "garbage")
            elif name == "dup_exception" and not self.aa55:
                code = self.exc_range[0]
                fr = bytes(exception_response(tcp, data, code)) if not tcp else bytes(SBytes(exception_response(tcp, data, code).items).concrete())
                deliver(sock, fr, d, "exception")
                deliver(sock, fr, d + script.delay(i, "e", req), "exception-dup")
            elif name == "exception":
                code = script.small(f"exc{req}_{i}", self.exc_range[0], self.exc_range[1])
                deliver(sock, bytes(exception_response(tcp, data, code)) if not tcp else
                        bytes(SBytes(exception_response(tcp, data, code).items).concrete()), d, "exception")
            elif name == "dup_fragment":
                lo = 9 if tcp else 5
                deliver(sock, good[:lo + 1], d, "frag1")
                deliver(sock, good[:lo + 1], d + script.delay(i, "e", req), "frag1-dup")
            elif name in ("two_fragments", "lone_fragment"):
                lo = 9 if tcp else 5
                if isinstance(self.split_choices, int):
                    s = self.split_choices
                elif self.split_choices == "all":
                    s = script.small(f"split{req}_{i}", lo, len(good) - 1)
                else:
                    s = (lo, len(good) - 2)[script.small(f"split{req}_{i}", 0, 1)]
                deliver(sock, good[:s], d, "frag1")
                if name == "two_fragments":
                    d2 = script.delay(i, "e", req)
                    deliver(sock, good[s:], d + d2, "frag2")
            elif name == "duplicate":
                deliver(sock, good, d, "answer")
                deliver(sock, good, d + script.delay(i, "e", req), "dup")
            elif name == "peer_closes":
                deliver(sock, ("eof",) if tcp else ("err", errno.ECONNREFUSED), d, "close")
            elif name == "sym_garbage":
                deliver(sock, script.sym_bytes(f"{req}_{i}", len(good)), d, "garbage")
            return 0

        def on_connect(sock):
            j = sum(1 for e in world.events if e[0] == "connect") - 1
            kind = CONNECT[script.small(f"conn{j}", 0, len(CONNECT) - 1)] if self.connect_faults else "ok"
            loop = loop_of()
            if kind == "never":
                return
            err = {"ok": 0, "refused": errno.ECONNREFUSED, "unreachable": errno.ENETUNREACH}[kind]
            c = script.delay(j, "c", 0, hi=2) if self.connect_faults else 0
            loop.call_later(c, lambda: sock._connect_result(err))
        return on_send, on_connect

    connect_faults = False
    generation = (0,)
    exc_range = (11, 12)        # C04: a named exception code and one outside the reason table (C08 explores the codes)
    split_choices = "two"       # C04: header-only and all-but-two-bytes splits (C07 explores every split point)


def classify(M, exc):
    X = M.exceptions
    if exc is None:
        return "response"
    if isinstance(exc, X.RequestRejectedException):
        return "rejected"
    if isinstance(exc, X.RequestFailedException):
        return "failed"
    return "leak:" + type(exc).__name__
