"""C10 — at most one transport is open per inverter and none is leaked."""
from __future__ import annotations

from . import history as H
from .c04 import CONFIGS_QUICK, ALPHABET, ALPHABET_QUICK

PROP = "C10"

PLANS_QUICK = [["answer"], ["close", "answer", "close"], ["newloop", "answer"], ["peer_eof", "answer"], ["newloop_keep", "answer"]]
PLANS_THOROUGH = PLANS_QUICK + [["answer", "answer", "close"], ["silent", "answer"], ["close", "newloop", "answer", "close"],
                                ["answer", "peer_eof", "answer", "peer_eof"]]


def tasks(tier, seed):
    cfgs = [c for c in CONFIGS_QUICK if c["retries"] >= 1]
    if tier == "thorough":
        alphabet = ["drop", "answer", "short_garbage", "exception", "two_fragments", "peer_closes", "send_error", "duplicate",
                    "lone_fragment"]
        light = ["drop", "answer", "exception", "peer_closes", "send_error", "lone_fragment"]
        return H.make_tasks(PROP, cfgs, alphabet, PLANS_QUICK[:1]) + H.make_tasks(PROP, cfgs, light, PLANS_THOROUGH[1:])
    alphabet = ["drop", "answer", "short_garbage", "exception", "peer_closes", "send_error"]
    ts = H.make_tasks(PROP, cfgs, alphabet, PLANS_QUICK[:1])
    light = ["drop", "answer", "exception", "peer_closes", "send_error"]
    ts += H.make_tasks(PROP, cfgs, light, PLANS_QUICK[1:])
    return ts


def run_task(task):
    return H.run_task(task)


def replay(case):
    return H.replay(PROP, case)


def evidence_meta(tier):
    return {
        "level": "model_checking",
        "rule": "one state = one path of a history on one inverter object in the virtual world: a request against a symbolic "
                "peer script, then close() / a change of the event loop / further requests; the monitor watches the real "
                "asyncio transports the loop created (is_closing) and the simulated socket descriptors",
        "bounds": {"histories": "2-3 requests (quick), up to 4 steps (thorough); first request symbolic (kinds "
                   "{drop, answer, garbage, exception, peer closes, send error} and symbolic delays), later requests answered "
                   "or silent", "configs": "udp/tcp x keep-alive on/off, T=2, retries=1"},
        "outside": ["more than 4 steps", "sockets left to the garbage collector after an event-loop change with keep-alive on "
                    "(not counted as a leak)"],
        "assumptions": ["environment model of symx/vworld.py"],
    }
