"""C18 — reading never writes, and invalid setter arguments never reach the inverter."""
from __future__ import annotations

import z3

from symx.core import Explorer, SBool, sym_int, sym_bool
from vf.common import Harness, shimmed, real, explore
from . import models
from .fakeinv import World, const_crc, drive

PROP = "C18"

DEVICES = [
    {"family": "ET", "serial": "9010KETU218W0001", "rated_power": 10000, "label": "ET 10k"},
    {"family": "ET", "serial": "9025KETT218W0001", "rated_power": 25000, "label": "ET 25k 745"},
    {"family": "DT", "serial": "9010KDTU218W0001", "label": "DT three phase"},
    {"family": "DT", "serial": "9010KDSN218W0001", "label": "DT single phase"},
    {"family": "ES", "serial": "95048ESU218W0001", "firmware": "2323G", "label": "ES eco v2"},
    {"family": "ES", "serial": "95048ESU218W0001", "firmware": "1010B", "label": "ES eco v1"},
]

READ_KINDS = ("read", "aa55-read", "unanswered")


def non_reads(log):
    return [op for op in log if op[0] not in READ_KINDS]


class ReadOnly(Harness):
    """The whole monitoring API against one simulated device (entered through connect()/discover()), capability
    flags symbolic: no request other than a read may be logged."""

    def __init__(self, dev, entry, prelude=False):
        self.dev, self.entry, self.prelude = dev, entry, prelude
        self.name = "read-only"
        self.params = {"device": dev, "entry": entry, "prelude": prelude}

    def _run(self, M, flag, val, crc):
        fam = self.dev["family"]
        blocks = models.ET_BLOCKS if fam == "ET" else models.DT_BLOCKS if fam == "DT" else {}

        def refuse(addr, count):
            for n, (a, c) in blocks.items():
                if a == addr and (c is None or c == count):
                    return flag(n)
            return False

        def default(addr):
            if addr in (35184, 47000):      # battery_mode, work_mode: steer which further reads are made
                return val(addr)
            return 1
        with World(M, self.dev, default=default, refuse=refuse, crc=crc) as w:
            w.fake.es_settings[66:68] = [0, val(66)]
            if self.entry == "connect":
                inv = drive(M.pkg.connect("127.0.0.1", 8899, fam, 0, 1, 0))
            elif self.entry == "discover":
                inv = drive(M.pkg.discover("127.0.0.1", 8899, 1, 0))
            else:
                inv = drive(M.pkg.connect("127.0.0.1", 8899, None, 0, 1, 0, True))
            if self.prelude:
                # legitimate writes first (whatever they leave behind must not turn later reads into writes)
                OM = M.inverter.OperationMode
                for w_ in (lambda: inv.set_operation_mode(OM.OFF_GRID), lambda: inv.set_grid_export_limit(1),
                           lambda: inv.set_ongrid_battery_dod(99), lambda: inv.set_operation_mode(OM.ECO_CHARGE, 1, 1),
                           lambda: inv.write_setting("modbus-47000", 1), lambda: inv.set_operation_mode(OM.GENERAL)):
                    try:
                        drive(w_())
                    except Exception:  # noqa: BLE001
                        pass
                w.fake.log.clear()
            calls = [lambda: inv.read_device_info(), lambda: inv.read_runtime_data(), lambda: inv.read_runtime_data(),
                     lambda: inv.read_settings_data(), lambda: inv.get_grid_export_limit(),
                     lambda: inv.get_operation_modes(True), lambda: inv.get_operation_mode(),
                     lambda: inv.get_ongrid_battery_dod()]
            ids = [s.id_ for s in inv.sensors()]
            for sid in (ids[:2] + ids[-2:] + ["ppv", "modbus-35100", "no_such_sensor"]):
                calls.append(lambda sid=sid: inv.read_sensor(sid))
            sids = [s.id_ for s in inv.settings()]
            for sid in (sids[:2] + [x for x in sids if "eco_mode" in x][:3] + ["modbus-47000", "no_such_setting", "time"]):
                calls.append(lambda sid=sid: inv.read_setting(sid))
            errors = []
            for c in calls:
                try:
                    drive(c())
                except Exception as e:  # noqa: BLE001  (what the calls return or raise is not this property's subject)
                    errors.append(type(e).__name__)
            return list(w.fake.log), type(inv).__name__

    def symbolic(self, ex):
        G = shimmed()
        G.modbus._modbus_checksum = const_crc
        G.sensor.decode_bitmap, G.sensor.decode_day_of_week, G.sensor.decode_months = G.orig_bitmap, *G.orig_sensor_fns
        cache = {}

        def flag(n):
            if n not in cache:
                cache[n] = bool(sym_bool(f"refuse_{n}"))
            return cache[n]

        def val(a):
            if a not in cache:
                v = sym_int(f"reg_{a}", 0, 3)
                ex.assume(v.e != 2)     # 0, 1 and 3 (= ECO, which makes get_operation_mode read the eco group)
                cache[a] = int(v)
            return cache[a]
        try:
            log, cls = self._run(G, flag, val, const_crc)
        except Exception as e:  # noqa: BLE001
            ex.fail("connect/discover failed against an answering inverter", f"{type(e).__name__}: {e}")
        bad = non_reads(log)
        if bad:
            ex.fail("a monitoring call transmitted a non-read request", str(bad[:3]))
        return cls

    def concrete(self, inputs):
        R = real()
        tag = f"{self.dev['label']} via {self.entry}" + (" after legitimate writes" if self.prelude else "")
        try:
            log, cls = self._run(R, lambda n: bool(inputs.get(f"refuse_{n}", False)), lambda a: inputs.get(f"reg_{a}", 0), None)
        except Exception as e:  # noqa: BLE001
            return {"outcome": "failed", "violation": f"{tag}: connect/discover failed ({type(e).__name__})", "observed": f"{type(e).__name__}: {e}"}
        bad = non_reads(log)
        return {"outcome": cls, "violation": f"{tag}: monitoring call transmitted a write" if bad else None,
                "observed": f"requests={len(log)} non-reads={bad[:3]}"}


class Setter(Harness):
    """Setters with symbolic integer arguments in [-2^31, 2^31]: out-of-range arguments transmit no write and raise
    ValueError where documented."""

    def __init__(self, dev, what, eco_v2=True):
        self.dev, self.what, self.eco_v2 = dev, what, eco_v2
        self.name = "setter"
        self.params = {"device": dev, "what": what, "eco_v2": eco_v2}

    def _run(self, M, crc, a, b):
        fam = self.dev["family"]
        cfg = {k: v for k, v in self.dev.items() if k != "label"}
        cfg["refuse"] = [] if self.eco_v2 else ["eco_v2", "peak_shaving"]
        inv, fake = models.make(M, cfg, default=lambda x: 1, crc=crc)
        if fam == "ES":
            fake.es_settings = list(bytes(86))
        fake.log.clear()
        OM = M.inverter.OperationMode
        exc = None
        try:
            if self.what == "export":
                drive(inv.set_grid_export_limit(a))
            elif self.what == "dod":
                drive(inv.set_ongrid_battery_dod(a))
            elif self.what == "eco_charge":
                drive(inv.set_operation_mode(OM.ECO_CHARGE, a, b))
            elif self.what == "eco_discharge":
                drive(inv.set_operation_mode(OM.ECO_DISCHARGE, a, b))
            elif self.what == "unknown_setting":
                drive(inv.write_setting("no_such_setting", a))
        except Exception as e:  # noqa: BLE001
            exc = e
        return [op for op in fake.log if op[0] not in READ_KINDS], exc

    def invalid(self, a, b):
        """(is invalid, ValueError documented) — as python bools or symbolic"""
        if self.what == "export":
            return a < 0, False
        if self.what == "dod":
            return (a < 0) | (a > 100) if not isinstance(a, int) else (a < 0 or a > 100), False
        if self.what in ("eco_charge", "eco_discharge"):
            if isinstance(a, int):
                return (a < 0 or a > 100 or b < 0 or b > 100), True
            return (a < 0) | (a > 100) | (b < 0) | (b > 100), True
        return True, True

    def symbolic(self, ex):
        G = shimmed()
        G.modbus._modbus_checksum = const_crc
        G.sensor.decode_day_of_week = lambda d: "<days>"
        G.sensor.decode_months = lambda d: "<months>"
        a = sym_int("a", -2 ** 31, 2 ** 31)
        b = sym_int("b", -2 ** 31, 2 ** 31)
        inv_c, must_raise = self.invalid(a, b)
        is_invalid = bool(inv_c)   # fork once on validity, then run the setter on the invalid class of arguments
        if not is_invalid:
            return "valid"         # what a setter does with valid arguments is C17/C19's subject
        writes, exc = self._run(G, const_crc, a, b)
        if writes:
            ex.fail("setter transmitted a write for an out-of-range argument", str(writes[:2]))
        if must_raise and not isinstance(exc, ValueError):
            ex.fail("setter did not raise ValueError for an out-of-range argument", repr(exc))
        return "invalid-blocked"

    def concrete(self, inputs):
        R = real()
        a, b = inputs.get("a", 0), inputs.get("b", 0)
        tag = f"{self.dev['label']}{'' if self.eco_v2 else ' (eco v1)'}: {self.what}"
        is_invalid, must_raise = self.invalid(a, b)
        if not is_invalid:
            return {"outcome": "valid", "violation": None, "observed": f"a={a} b={b}"}
        writes, exc = self._run(R, None, a, b)
        v = None
        if writes:
            v = f"{tag}: write transmitted for an out-of-range argument"
        elif must_raise and not isinstance(exc, ValueError):
            v = f"{tag}: no ValueError for an out-of-range argument"
        return {"outcome": "invalid-blocked", "violation": v, "observed": f"a={a} b={b} writes={writes[:2]} exc={exc!r}"}


def tasks(tier, seed):
    ts = []
    ro = [(d, e, False) for d in DEVICES for e in ("connect", "discover", "connect-auto")]
    ro += [(d, "connect", True) for d in DEVICES]
    ts += [{"name": f"ro-{i}", "fn": "ro", "items": ro[i::12]} for i in range(12) if ro[i::12]]
    st = []
    for d in DEVICES:
        for w in ("export", "dod", "eco_charge", "eco_discharge", "unknown_setting"):
            if d["family"] == "DT" and w in ("dod", "eco_charge", "eco_discharge"):
                continue
            st.append((d, w, True))
            if d["family"] == "ET" and w.startswith("eco"):
                st.append((d, w, False))
    ts += [{"name": f"set-{i}", "fn": "set", "items": st[i::7]} for i in range(7) if st[i::7]]
    return ts


def run_task(task):
    G = shimmed()
    if not hasattr(G, "orig_sensor_fns"):
        G.orig_sensor_fns = (G.sensor.decode_day_of_week, G.sensor.decode_months)
        G.orig_bitmap = G.sensor.decode_bitmap
    out = []
    if task["fn"] == "ro":
        for d, e, pre in task["items"]:
            out.append(explore(ReadOnly(d, e, pre), max_paths=5000, max_seconds=900, witnesses_per_outcome=1, trace=len(out) < 1))
    else:
        for d, w, v2 in task["items"]:
            out.append(explore(Setter(d, w, v2), max_paths=5000, max_seconds=600, witnesses_per_outcome=1, trace=len(out) < 1))
    return {"harnesses": out}


def replay(case):
    p = case["params"]
    if case["harness"] == "read-only":
        return ReadOnly(p["device"], p["entry"], p.get("prelude", False)).concrete(case["inputs"])
    return Setter(p["device"], p["what"], p.get("eco_v2", True)).concrete(case["inputs"])


def evidence_meta(tier):
    return {
        "level": "model_checking",
        "rule": "one state = one path of the read-only API sequence (entered through connect()/discover()) on the simulated "
                "device with symbolic capability flags and mode registers, or of one setter with symbolic integer arguments",
        "bounds": {"devices": [d["label"] for d in DEVICES], "entries": ["connect(family)", "discover", "connect(auto)"],
                   "capabilities": "all subsets of refused optional blocks (lazily forked)", "work_mode/battery_mode": "0..5",
                   "setter_arguments": "-2^31..2^31 (symbolic), two arguments for the eco modes"},
        "outside": ["bytes actually put on the wire by the transport (C04/C05 compare every transmission with the command "
                    "being executed)"],
        "assumptions": ["request log of the simulated device, decoded by the independent request decoder"],
    }
