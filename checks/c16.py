"""C16 — reading a single sensor gives the same value as the bulk read."""
from __future__ import annotations

import z3

from symx.core import Explorer, SInt, SReal, SBool, sym_int, sym_bool, to_z3
from symx.shims import SDateTime, wrap_sensor_labels
from vf.common import Harness, shimmed, real, explore
from . import models, sensors as S
from .fakeinv import const_crc, drive

PROP = "C16"


def _eq_expr(a, b):
    """z3 Bool (or python bool) for equality of two decoded values"""
    if a is None or b is None:
        return a is None and b is None
    if isinstance(a, SDateTime) or isinstance(b, SDateTime):
        fa = a.fields() if isinstance(a, SDateTime) else (a.year, a.month, a.day, a.hour, a.minute, a.second)
        fb = b.fields() if isinstance(b, SDateTime) else (b.year, b.month, b.day, b.hour, b.minute, b.second)
        return z3.And([to_z3(x) == to_z3(y) for x, y in zip(fa, fb)])
    if isinstance(a, tuple) and isinstance(b, tuple) and len(a) == 2 and a[0] == b[0] == "<bitmap>":
        return to_z3(a[1]) == to_z3(b[1])
    if isinstance(a, (str, bytes)) or isinstance(b, (str, bytes)):
        return a == b
    if (isinstance(a, float) and a != a) or (isinstance(b, float) and b != b):
        return isinstance(a, float) and isinstance(b, float) and a != a and b != b
    if isinstance(a, (int, float)) and isinstance(b, (int, float)):
        return a == b
    for x in (a, b):
        if isinstance(x, float) and x in (float("inf"), float("-inf")):
            return False
    if isinstance(a, (int, float, SInt, SReal, SBool)) and isinstance(b, (int, float, SInt, SReal, SBool)):
        ta, tb = to_z3(a), to_z3(b)
        if z3.is_int(ta) and z3.is_real(tb):
            ta = z3.ToReal(ta)
        if z3.is_real(ta) and z3.is_int(tb):
            tb = z3.ToReal(tb)
        return ta == tb
    return a == b


class SingleVsBulk(Harness):
    """bulk: the real _map_response over the block answer of the simulated inverter; single: read_sensor(id);
    same (symbolic) register file."""

    def __init__(self, cfg, sid, prelude=False):
        self.cfg, self.sid, self.prelude = cfg, sid, prelude
        self.name = "single-vs-bulk"
        self.params = {"cfg": cfg, "id": sid, "prelude": prelude}

    def _setup(self, M, default, crc):
        if not hasattr(self, "_cache"):
            self._cache = {}
        if M.prefix not in self._cache:
            inv0, fake0, blocks = models.discover_blocks(M, self.cfg, crc=crc)
            # the definition that the bulk result reports for this id (the later one wins), and its block
            target = None
            for cmd, sensors in blocks:
                for s in sensors:
                    if s.id_ == self.sid:
                        target = (cmd.first_address, cmd.value, s)
            self._cache[M.prefix] = target
        target = self._cache[M.prefix]
        # a fresh inverter object and simulated inverter for every path (no state may leak between paths)
        inv, fake = models.make(M, self.cfg, crc=crc)
        info = range(0x88b8, 0x88b8 + 0x21) if self.cfg["family"] == "ET" else range(0x7531, 0x7531 + 0x28)
        if self.cfg.get("refuse"):
            # capability fallback configurations: firmware that refuses a block refuses every read of the registers only
            # that block delivers; the object first polls (concrete contents) until its capabilities are settled —
            # the comparison below is about the state *after* the set of available sensors has changed
            from .c15 import REGIONS
            regions = [REGIONS[n] for n in self.cfg["refuse"] if n in REGIONS]
            base = fake.refuse
            fake.refuse = lambda a, c: base(a, c) or any(a < hi and a + c > lo for lo, hi in regions)
            fake.default = lambda a: 1
            for _ in range(2):
                try:
                    drive(inv.read_runtime_data())
                except M.exceptions.InverterError:
                    pass
        fake.regs = {a: v for a, v in fake.regs.items() if a in info}
        fake.default = default
        fake.log.clear()
        fake.raw_log.clear()
        if target is not None:
            target = (inv._read_command(target[0], target[1]), target[2])
        return inv, fake, target

    def _run(self, M, default, crc):
        inv, fake, target = self._setup(M, default, crc)
        if target is None:
            return ("unlisted", None, None)
        cmd, s = target
        if M.prefix == "goodwe":
            wrap_sensor_labels(s)
        if self.prelude:
            # a setting with the same id (other registers) is read first on the same object
            try:
                drive(inv.read_setting(self.sid))
            except (ValueError, M.exceptions.InverterError):
                pass
        resp = drive(fake.handle(cmd))
        bulk = type(inv)._map_response(resp, (s,))[self.sid]
        try:
            single = drive(inv.read_sensor(self.sid))
            return ("ok", bulk, single)
        except ValueError as e:
            return ("ValueError", bulk, e)

    def symbolic(self, ex):
        G = shimmed()
        G.modbus._modbus_checksum = const_crc
        G.sensor.decode_day_of_week, G.sensor.decode_months = G.orig_sensor_fns
        # cut: the label rendering of bitmap words is C13's subject; equal words give equal labels
        G.sensor.decode_bitmap = lambda value, bitmap: ("<bitmap>", value)

        def default(addr):
            return sym_int(f"r{addr}", 0, 0xFFFF)
        try:
            st, bulk, single = self._run(G, default, const_crc)
        except Exception as e:  # noqa: BLE001
            ex.fail("read_sensor raised for a listed id", f"{type(e).__name__}: {e}")
        if st == "unlisted":
            return "unlisted"
        if st == "ValueError":
            if "nknown sensor" in str(single):
                ex.fail("read_sensor does not know a listed id", str(single))
            ex.check(bulk is None, "read_sensor raised ValueError although the bulk read reports a value", str(single))
            return "ValueError"
        eq = _eq_expr(bulk, single)
        if eq is True:
            return "equal"
        if eq is False:
            ex.fail("single read differs from the bulk value", f"bulk={bulk!r} single={single!r}")
        ex.check(eq, "single read differs from the bulk value", f"bulk={bulk!r} single={single!r}")
        return "equal"

    def concrete(self, inputs):
        R = real()
        fam = self.cfg["family"]
        tag = f"{fam}:{self.sid}" + (" after read_setting of the same id" if self.prelude else "")
        try:
            st, bulk, single = self._run(R, lambda a: inputs.get(f"r{a}", 0), None)
        except Exception as e:  # noqa: BLE001
            return {"outcome": f"raised {type(e).__name__}", "violation": f"{tag}: read_sensor raised {type(e).__name__}",
                    "observed": f"{type(e).__name__}: {e}"}
        if st == "unlisted":
            return {"outcome": "unlisted", "violation": None, "observed": ""}
        if st == "ValueError":
            v = None
            if "nknown sensor" in str(single):
                v = f"{tag}: read_sensor does not know a listed id"
            elif bulk is not None:
                v = f"{tag}: read_sensor raised ValueError although the bulk read reports a value"
            return {"outcome": "ValueError", "violation": v, "observed": f"bulk={bulk!r} single={single!r}"}
        same = (bulk == single) or (isinstance(bulk, float) and bulk != bulk and isinstance(single, float) and single != single)
        return {"outcome": "equal", "violation": None if same else f"{tag}: single read differs from the bulk value",
                "observed": f"bulk={bulk!r} single={single!r}"}


class History(Harness):
    """The id cache over histories in which the set of available sensors changes: after a symbolic sequence of three
    operations every id listed by sensors() must be known to read_sensor()."""

    def __init__(self, cfg):
        self.cfg = cfg
        self.name = "history"
        self.params = {"cfg": cfg}

    OPS = 4

    def _run(self, M, choose, flag, crc):
        battery = [flag("bat0")]

        def default(addr):
            if addr == 35184:  # battery_mode
                return 1 if battery[0] else 0
            return 1
        inv, fake = models.make(M, self.cfg, default=default, crc=crc,
                                refuse=lambda a, c: False)
        refuse_now = [set()]
        blocks = models.ET_BLOCKS if self.cfg["family"] == "ET" else models.DT_BLOCKS
        fake.refuse = lambda a, c: any(a == blocks[n][0] and (blocks[n][1] is None or blocks[n][1] == c) for n in refuse_now[0])
        for i in range(3):
            op = choose(f"op{i}")
            if op == 0:
                try:
                    drive(inv.read_sensor("vpv1"))
                except ValueError:
                    pass
            elif op == 1:
                battery[0] = flag(f"bat{i + 1}")
                fake.regs.pop(35184, None)
                refuse_now[0] = {n for n in ("battery2", "dt_meter") if n in blocks and flag(f"ref{i}{n}")}
                try:
                    drive(inv.read_runtime_data())
                except M.exceptions.InverterError:
                    pass
            elif op == 2:
                try:
                    drive(inv.read_device_info())
                except M.exceptions.InverterError:
                    pass
            else:
                pass
        missing = [s.id_ for s in inv.sensors() if inv._get_sensor(s.id_) is None]
        return missing

    def symbolic(self, ex):
        G = shimmed()
        G.modbus._modbus_checksum = const_crc
        G.sensor.decode_bitmap, G.sensor.decode_day_of_week, G.sensor.decode_months = G.orig_bitmap, *G.orig_sensor_fns
        missing = self._run(G, lambda n: int(sym_int(n, 0, self.OPS - 1)), lambda n: bool(sym_bool(n)), const_crc)
        if missing:
            ex.fail("a listed sensor id is unknown to read_sensor", str(missing[:5]))
        return "ok"

    def concrete(self, inputs):
        R = real()
        missing = self._run(R, lambda n: inputs.get(n, 0), lambda n: bool(inputs.get(n, False)), None)
        return {"outcome": "ok", "violation": f"{self.cfg['family']}: listed sensor ids unknown to read_sensor after a capability change" if missing else None,
                "observed": f"ops={[inputs.get(f'op{i}', 0) for i in range(3)]} flags={ {k: v for k, v in inputs.items() if not k.startswith('op')} } missing={missing[:6]}"}


CFGS_QUICK = [
    {"family": "ET", "serial": "9010KETU218W0001", "rated_power": 10000, "refuse": []},
    {"family": "ET", "serial": "9025KETT218W0001", "rated_power": 25000, "refuse": []},
    {"family": "ET", "serial": "9006KEHU218W0001", "rated_power": 6000, "refuse": []},
    {"family": "DT", "serial": "9010KDTU218W0001", "refuse": []},
    {"family": "DT", "serial": "9010KMSU218W0001", "refuse": []},
    # capability fallbacks of the meter block (extended-2 refused; both extended blocks refused)
    {"family": "ET", "serial": "9025KETT218W0001", "rated_power": 25000, "refuse": ["meter_ext2"]},
    {"family": "ET", "serial": "9025KETT218W0001", "rated_power": 25000, "refuse": ["meter_ext2", "meter_ext"]},
]


def tasks(tier, seed):
    R = real()
    cfgs = list(CFGS_QUICK)
    if tier == "thorough":
        cfgs = [c for c in models.et_configs(R, "quick") if not c["refuse"] or c["refuse"] == ["meter_ext2"]] + \
            models.dt_configs(R, "quick")
    items, seen = [], set()
    for cfg in cfgs:
        inv, fake, blocks = models.discover_blocks(R, cfg)
        for s in inv.sensors():
            if cfg["refuse"] and not (36000 <= s.offset < 36200):
                continue   # the fallback configurations matter for the meter block only
            k = (cfg["family"], s.id_, s.offset, S.cls_name(s), len(blocks), tuple(cfg["refuse"]))
            if k in seen:
                continue
            seen.add(k)
            items.append((cfg, s.id_, False))
            if s.id_ in inv._settings:
                items.append((cfg, s.id_, True))
    n = 32 if tier == "quick" else 96
    ts = [{"name": f"svb-{i}", "fn": "svb", "items": items[i::n]} for i in range(n) if items[i::n]]
    hist = [CFGS_QUICK[0], CFGS_QUICK[1], CFGS_QUICK[3]]
    ts += [{"name": f"history-{i}", "fn": "history", "cfg": c} for i, c in enumerate(hist)]
    return ts


def run_task(task):
    G = shimmed()
    if not hasattr(G, "orig_sensor_fns"):
        G.orig_sensor_fns = (G.sensor.decode_day_of_week, G.sensor.decode_months)
        G.orig_bitmap = G.sensor.decode_bitmap
    out = []
    if task["fn"] == "svb":
        for cfg, sid, pre in task["items"]:
            out.append(explore(SingleVsBulk(cfg, sid, pre), max_paths=5000, max_seconds=120, witnesses_per_outcome=1,
                               trace=len(out) < 2))
    else:
        out.append(explore(History(task["cfg"]), max_paths=20000, max_seconds=600, witnesses_per_outcome=1))
    return {"harnesses": out}


def replay(case):
    p = case["params"]
    if case["harness"] == "history":
        return History(p["cfg"]).concrete(case["inputs"])
    return SingleVsBulk(p["cfg"], p["id"], p.get("prelude", False)).concrete(case["inputs"])


def evidence_meta(tier):
    return {
        "level": "model_checking",
        "rule": "one state = one path of (bulk decode of the block, read_sensor(id)) over one symbolic register file; "
                "z3 proves equality of the two results per path; history harness: symbolic choice of 3 operations and "
                "capability flags",
        "bounds": {"ids": "every id of sensors() for 5 model configurations (quick) / all predicate classes (thorough)",
                   "contents": "every register symbolic", "histories": "3 operations from {read_sensor, read_runtime_data "
                   "with battery present/absent and refused blocks, read_device_info, nothing}"},
        "outside": ["ES (read_sensor is implemented through the bulk read)", "histories longer than 3 operations"],
        "assumptions": ["bulk value = real _map_response applied to the block answer for that sensor alone (sensors are "
                        "decoded independently, shown by C12's table-level check)"],
    }
