"""C08 — Modbus exception answers surface at once as RequestRejectedException(reason)."""
from __future__ import annotations

import asyncio

import z3

from symx.core import Explorer, SInt, sym_int, to_z3, cur
from symx.sbytes import SBytes
from symx import vworld
from vf.common import Harness, shimmed, real, explore
from . import transport as TR, validators as V
from .c04 import OneRequest, _eqz

PROP = "C08"

REASONS = dict(V.MODBUS_REASONS)   # the standard Modbus exception reasons, written independently of goodwe.modbus


class FunctionalCrc:
    """uninterpreted CRC that is a *function*: equal argument terms give the same value"""

    def __init__(self):
        self.memo = {}

    def __call__(self, data):
        items = tuple(data.items) if hasattr(data, "items") and not isinstance(data, dict) else tuple(data)
        key = tuple(b.e.sexpr() if isinstance(b, SInt) else b for b in items)
        if key not in self.memo:
            ex = cur()
            name = ex.fresh_name("crc")
            v = z3.Int(name)
            ex.assume(z3.And(v >= 0, v <= 0xFFFF))
            self.memo[key] = v
        return SInt(self.memo[key])


class ExceptionKernel(Harness):
    """both Modbus validators on an exception frame with symbolic code and comm address, for every command class"""

    name = "exception-frame"

    def __init__(self, framing, kind):
        self.framing, self.kind = framing, kind
        self.params = {"framing": framing, "kind": kind}

    def _cmd(self, M, comm, reg):
        a = {"comm": comm, "reg": reg, "count": 3, "value": 77, "payload": b"\x00\x01\x00\x02"}
        return V.make_command(M.protocol, M, self.framing, self.kind, 4, a)

    def symbolic(self, ex):
        G = shimmed()
        crc = FunctionalCrc()
        G.modbus._modbus_checksum = crc
        comm = sym_int("comm", 0, 255)
        code = sym_int("code", 0, 255)
        cmd = self._cmd(G, comm, 35100)
        fn = {"read": 3, "write": 6, "multi": 16}[self.kind] | 0x80
        if self.framing == "rtu":
            core = [comm, fn, code]
            c = crc(SBytes(core))
            frame = SBytes([0xAA, 0x55] + core + [c % 256, c // 256])
        else:
            frame = SBytes([0, 1, 0, 0, 0, 3, comm, fn, code])
        X = G.exceptions
        try:
            r = cmd.validator(frame)
            ex.fail("exception frame did not raise RequestRejectedException", repr(r))
        except X.RequestRejectedException as e:
            msg = e.message
        except Exception as e:  # noqa: BLE001
            ex.fail("exception frame raised another exception", f"{type(e).__name__}: {e}")
        want_keys = [k for k, v in REASONS.items() if v == msg]
        if msg == "UNKNOWN":
            ex.check(z3.And([code.e != k for k in REASONS]), "known exception code reported as UNKNOWN")
        elif want_keys:
            ex.check(z3.Or([code.e == k for k in want_keys]), "reason text does not belong to the exception code")
        else:
            ex.fail("reason text is not a standard Modbus reason", repr(msg))
        if G.modbus.ILLEGAL_DATA_ADDRESS != "ILLEGAL DATA ADDRESS" or G.et.ILLEGAL_DATA_ADDRESS != "ILLEGAL DATA ADDRESS" \
                or G.dt.ILLEGAL_DATA_ADDRESS != "ILLEGAL DATA ADDRESS":
            ex.fail("the constant the inverter classes compare with is not 'ILLEGAL DATA ADDRESS'")
        return msg

    def concrete(self, inputs):
        R = real()
        comm, code = inputs.get("comm", 0), inputs.get("code", 0)
        cmd = self._cmd(R, comm, 35100)
        fn = {"read": 3, "write": 6, "multi": 16}[self.kind] | 0x80
        if self.framing == "rtu":
            core = bytes([comm, fn, code])
            c = V.crc16_reference(core)
            frame = b"\xaa\x55" + core + bytes([c & 255, c >> 8])
        else:
            frame = bytes([0, 1, 0, 0, 0, 3, comm, fn, code])
        tag = f"{self.framing}/{self.kind}"
        try:
            r = cmd.validator(frame)
            return {"outcome": "returned", "violation": f"{tag}: exception frame not rejected", "observed": f"{frame.hex()} -> {r!r}"}
        except R.exceptions.RequestRejectedException as e:
            want = REASONS.get(code, "UNKNOWN")
            return {"outcome": e.message, "violation": None if e.message == want else f"{tag}: wrong reason text for an exception code",
                    "observed": f"code={code} message={e.message!r} expected={want!r}"}
        except Exception as e:  # noqa: BLE001
            return {"outcome": "raised", "violation": f"{tag}: exception frame raised {type(e).__name__}", "observed": str(e)}


class ExceptionTransport(OneRequest):
    """An exception frame answers transmission number `pos` (earlier ones are lost): the request must fail at the
    arrival time, without further transmission, with the standard reason."""

    name = "exception-transport"

    def __init__(self, scen, pos, pre="drop"):
        super().__init__(scen, ["drop", "exception", "lone_fragment"], False, "C08")
        self.pos, self.pre = pos, pre
        self.params = {"scenario": self.scen_params, "pos": pos, "pre": pre}

    def scenario(self):
        s = TR.Scenario(count=5, **self.scen_params)
        s.exc_range = (0, 12)
        # earlier attempts may have received a leading fragment whose missing tail is exactly as long as an exception
        # frame (count 5: RTU 17 bytes, TCP 19 bytes, split after 10 bytes -> 7 resp. 9 bytes missing)
        s.split_choices = 10
        return s

    def _script(self, script):
        for i in range(self.pos):
            script.cache[f"k0_{i}"] = TR.K["drop"] if self.pre == "drop" else TR.K["lone_fragment"]
        script.cache[f"k0_{self.pos}"] = TR.K["exception"]
        return script

    def verdict(self, obs, check, fail, code, delay):
        scen = self.scenario()
        if obs.abort is not None:
            fail("request did not terminate", obs.abort)
        if obs.outcome != "rejected":
            fail("exception answer did not surface as RequestRejectedException", obs.outcome)
        want = REASONS.get(code, "UNKNOWN")
        if getattr(obs.exc, "message", None) != want:
            fail("RequestRejectedException carries the wrong reason", f"code={code}: {getattr(obs.exc, 'message', None)!r} != {want!r}")
        if len(obs.tx) != self.pos + 1:
            fail("a retransmission followed the exception answer (or an earlier one is missing)", str(len(obs.tx)))
        t_arrival = obs.tx[-1][0] + delay
        check(_eqz(obs.t_done, t_arrival), "request did not fail at the arrival of the exception frame", f"t_done={obs.t_done!r}")

    def symbolic(self, ex):
        G = shimmed()
        G.modbus._modbus_checksum = TR.hybrid_crc(G.orig_checksum)
        T = self.scenario().T
        script = self._script(TR.SymScript(self.kinds, T, max_delay=T - 1))
        obs = self._run(G, script)
        code = script.cache.get(f"p_exc0_{self.pos}", 0)
        delay = script.cache.get(f"d0_{self.pos}", 0)

        def check(c, label, detail=""):
            if c is True:
                return
            if c is False:
                ex.fail(label, detail)
            ex.check(c, label, detail)
        self.verdict(obs, check, ex.fail, code, delay)
        return f"rejected code {code}"

    def concrete(self, inputs):
        R = real()
        inputs = dict(inputs)
        for i in range(self.pos):
            inputs[f"k0_{i}"] = TR.K["drop"] if self.pre == "drop" else TR.K["lone_fragment"]
        inputs[f"k0_{self.pos}"] = TR.K["exception"]
        obs = self._run(R, TR.DictScript(inputs, self.scenario().T))
        code, delay = inputs.get(f"p_exc0_{self.pos}", 0), inputs.get(f"d0_{self.pos}", 0)
        viol = []

        class Stop(Exception):
            pass

        def fail(label, detail=""):
            viol.append((label, detail))
            raise Stop()

        def check(c, label, detail=""):
            if c is not True and (c is False or not bool(c)):
                fail(label, detail)
        try:
            self.verdict(obs, check, fail, code, delay)
        except Stop:
            pass
        sp = self.scen_params
        tag = f"{sp['transport']}{' keep-alive' if sp['keep_alive'] else ''}: exception answers transmission {self.pos + 1}" + \
            (" after a lone fragment" if self.pre != "drop" and self.pos else "")
        return {"outcome": f"rejected code {code}", "violation": f"{tag}: {viol[0][0]}" if viol else None,
                "observed": f"code={code} delay={delay} outcome={obs.outcome} message={getattr(obs.exc, 'message', None)!r} tx={[t for t, _, _ in obs.tx]} t_done={obs.t_done} {viol[0][1] if viol else ''}"}


def tasks(tier, seed):
    ts = [{"name": f"kernel-{f}-{k}", "fn": "kernel", "framing": f, "kind": k} for f in ("rtu", "tcp") for k in ("read", "write", "multi")]
    cfgs = []
    for tr in ("udp", "tcp"):
        for ka in (False, True):
            cfgs.append({"transport": tr, "keep_alive": ka, "T": 3, "retries": 1 if tier == "quick" else 2})
    for c in cfgs:
        for pos in range(c["retries"] + 1):
            ts.append({"name": f"tr-{c['transport']}-{c['keep_alive']}-{pos}", "fn": "transport", "scen": c, "pos": pos, "pre": "drop"})
            if pos:
                ts.append({"name": f"tr-{c['transport']}-{c['keep_alive']}-{pos}-frag", "fn": "transport", "scen": c, "pos": pos,
                           "pre": "fragment"})
    # histories: an exception-answered request right after an earlier (rejected / lost-then-rejected / answered) one on
    # the same object, as ET.read_device_info does when it probes optional register blocks
    from . import history as H
    hcfgs = [dict(c) for c in cfgs if c["retries"] == 1] + [{"transport": tr, "keep_alive": ka, "T": 3, "retries": 0}
                                                            for tr in ("udp", "tcp") for ka in (False, True)]
    plans = [["exception"], ["exception", "exception"]] + ([["answer", "exception"], ["exception", "answer", "exception"]]
                                                             if tier == "thorough" else [])
    for c in hcfgs:
        for plan in plans:
            for first, second in (("exception", None), ("drop", "exception"), ("answer", None)):
                if c["retries"] == 0 and first == "drop":
                    continue
                ts.append({"name": f"hist-{c['transport']}-{c['keep_alive']}-{c['retries']}-{'+'.join(plan)}-{first}", "fn": "history",
                           "prop": PROP, "scen": c, "first": first, "second": second if c["retries"] else None, "plan": plan,
                           "alphabet": ["drop", "answer", "exception"]})
    return ts


def run_task(task):
    if task["fn"] == "history":
        from . import history as H
        return H.run_task(task)
    if task["fn"] == "kernel":
        return {"harnesses": [explore(ExceptionKernel(task["framing"], task["kind"]), max_paths=2000, max_seconds=600)]}
    return {"harnesses": [explore(ExceptionTransport(task["scen"], task["pos"], task.get("pre", "drop")), max_paths=20000, max_seconds=900, witnesses_per_outcome=1)]}


def replay(case):
    p = case["params"]
    if case["harness"] == "history":
        from . import history as H
        return H.replay(PROP, case)
    if case["harness"] == "exception-frame":
        return ExceptionKernel(p["framing"], p["kind"]).concrete(case["inputs"])
    return ExceptionTransport(p["scenario"], p["pos"], p.get("pre", "drop")).concrete(case["inputs"])


def evidence_meta(tier):
    return {
        "level": "model_checking",
        "rule": "kernel: one path per reason-table outcome of the real validators on an exception frame with symbolic code "
                "(0..255) and comm address; transport: one path per (code, ordering class) of an exception frame answering "
                "transmission 1..retries+1 in the virtual world",
        "bounds": {"codes": "kernel 0..255 symbolic; transport 0..12 enumerated", "commands": "read/write/write-multi x RTU/TCP",
                   "position": "exception answers transmission 1..2 (quick) / 1..3 (thorough) after earlier losses",
                   "delay": "0..T-1 ticks (symbolic)", "configs": "udp/tcp x keep-alive on/off, T=3"},
        "outside": ["exception frames that arrive after the timeout (C04)", "AA55 framing has no exception frames"],
        "assumptions": ["reference reason table written from the Modbus specification (checks/validators.py:MODBUS_REASONS)",
                        "CRC of the symbolic exception frame: uninterpreted *function* (same argument, same value)"],
    }
