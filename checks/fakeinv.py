"""Simulated inverter behind ``Inverter._read_from_socket`` (DESIGN §0.4).

Works on both copies of goodwe: the shimmed one (register contents may be symbolic) and the pristine one (replay).
Requests built by the real command classes are parsed by an independent decoder; reads are answered from a register
file with a frame that the *real* validator of that command must accept; writes update the register file; address
ranges can be refused with a Modbus exception frame (ILLEGAL DATA ADDRESS), which the real validator turns into
RequestRejectedException.
"""
from __future__ import annotations

from symx.core import SInt, SBool, concrete_of, cur
from symx.sbytes import SBytes, SByteArray

from .validators import crc16_reference


def _items(b):
    if isinstance(b, (SBytes, SByteArray)):
        return list(b.items)
    return list(b)


def _cint(x, what="request field"):
    """A request field that must be concrete for the decoder (function codes, lengths)."""
    if isinstance(x, SInt):
        c = concrete_of(x)
        if c is None:
            c = cur().concretize(x.e)
        return c
    return x


def _be16(hi, lo):
    if isinstance(hi, int) and isinstance(lo, int):
        return hi * 256 + lo
    return hi * 256 + lo  # SInt arithmetic


def _split16(v):
    if isinstance(v, int):
        return [(v >> 8) & 0xFF, v & 0xFF]
    return [(v // 256) % 256, v % 256]


class Refused(Exception):
    pass


class FakeInverter:
    """regs: dict addr -> 16 bit value (int | SInt).  default(addr) supplies a value for an address never written.
    refuse(addr, count) -> bool | SBool decides whether a *read* of that range is refused (ILLEGAL DATA ADDRESS).
    """

    def __init__(self, M, inv, default=lambda addr: 0, refuse=None, crc=None, silent=None):
        self.M = M
        self.inv = inv
        self.regs = {}
        self.default = default
        self.refuse = refuse or (lambda addr, count: False)
        self.silent = silent or (lambda op: False)
        self.crc = crc or crc16_reference
        self.log = []  # decoded operations, in order
        self.raw_log = []  # request bytes
        self.es_info = None  # bytes-like for ES device info
        self.es_runtime = None
        self.es_settings = None  # list of byte items (mutable)
        if inv is not None:
            inv._read_from_socket = self.handle

    # -- register file ---------------------------------------------------------------------------------------
    def get(self, addr):
        if addr not in self.regs:
            self.regs[addr] = self.default(addr)
        return self.regs[addr]

    def read_bytes(self, addr, count):
        out = []
        for a in range(addr, addr + count):
            out.extend(_split16(self.get(a)))
        return out

    def write_bytes(self, addr, items):
        items = list(items)
        for i in range(0, len(items) - 1, 2):
            self.regs[addr + i // 2] = _be16(items[i], items[i + 1])

    # -- framing ---------------------------------------------------------------------------------------------
    def _respond(self, command, framing, comm, fn, body, tx=None):
        if framing == "rtu":
            core = [comm, fn] + list(body)
            c = self.crc(core)
            frame = [0xAA, 0x55] + core + [c & 0xFF if isinstance(c, int) else c % 256,
                                           c >> 8 if isinstance(c, int) else c // 256]
        else:
            pdu = [comm, fn] + list(body)
            frame = list(tx) + [0, 0, len(pdu) >> 8, len(pdu) & 0xFF] + pdu
        data = SBytes(frame)
        if data.is_concrete():
            data = data.concrete()
        ok = command.validator(data)  # may raise RequestRejectedException for exception frames
        if ok is not True and not (isinstance(ok, SBool) and bool(ok)):
            raise RuntimeError(f"simulated inverter produced a frame the validator refuses: {data!r}")
        return self.M.protocol.ProtocolResponse(data, command)

    def _respond_aa55(self, command, payload):
        rt = None
        for cell in (command.validator.__closure__ or ()):
            if isinstance(cell.cell_contents, str):
                rt = cell.cell_contents
        if not rt:
            raise RuntimeError("cannot determine expected AA55 response type")
        head = [0xAA, 0x55, 0x7F, 0xC0, int(rt[0:2], 16), int(rt[2:4], 16), len(payload)] + list(payload)
        total = 0
        for b in head:
            total = total + b
        data = SBytes(head + _split16(total))
        if data.is_concrete():
            data = data.concrete()
        ok = command.validator(data)
        if ok is not True and not (isinstance(ok, SBool) and bool(ok)):
            raise RuntimeError("simulated inverter produced an AA55 frame the validator refuses")
        return self.M.protocol.ProtocolResponse(data, command)

    # -- request handling ------------------------------------------------------------------------------------
    async def handle(self, command):
        req = command.request_bytes()
        f = _items(req)
        self.raw_log.append(req)
        if len(f) >= 9 and f[0] == 0xAA and f[1] == 0x55 and f[2] == 0xC0 and f[3] == 0x7F:
            return self._handle_aa55(command, f)
        if isinstance(command, self.M.protocol.ModbusTcpProtocolCommand):
            framing, tx, pdu = "tcp", f[0:2], f[6:]
        elif isinstance(command, self.M.protocol.ModbusRtuProtocolCommand):
            framing, tx, pdu = "rtu", None, f[:-2]
        else:
            # raw ProtocolCommand (send_command / search): echo
            self.log.append(("raw", bytes(req) if not isinstance(req, SBytes) else req))
            return self.M.protocol.ProtocolResponse(req, command)
        comm, fn = pdu[0], _cint(pdu[1])
        addr = _be16(pdu[2], pdu[3])
        addr_c = _cint(addr)
        if fn == 3:
            count = _cint(_be16(pdu[4], pdu[5]))
            self.log.append(("read", addr_c, count))
            if self.silent(("read", addr_c, count)):
                raise self.M.exceptions.RequestFailedException("no response (simulated)")
            if _truth(self.refuse(addr_c, count)):
                return self._respond(command, framing, comm, 0x83, [2], tx)
            body = [2 * count] + self.read_bytes(addr_c, count)
            return self._respond(command, framing, comm, 3, body, tx)
        if fn == 6:
            val = _be16(pdu[4], pdu[5])
            self.log.append(("write", addr_c, [pdu[4], pdu[5]]))
            self.regs[addr_c] = val
            return self._respond(command, framing, comm, 6, list(pdu[2:6]), tx)
        if fn == 16:
            nreg = _cint(_be16(pdu[4], pdu[5]))
            nbytes = _cint(pdu[6])
            payload = list(pdu[7:])
            self.log.append(("multi", addr_c, payload, nreg, nbytes))
            self.write_bytes(addr_c, payload)
            return self._respond(command, framing, comm, 16, list(pdu[2:6]), tx)
        raise RuntimeError(f"simulated inverter: unsupported function {fn}")

    def _handle_aa55(self, command, f):
        t0, t1 = _cint(f[4]), _cint(f[5])
        n = _cint(f[6])
        data = f[7:7 + n]
        key = (t0, t1)
        if key == (0x01, 0x02):
            self.log.append(("aa55-read", "info"))
            return self._respond_aa55(command, list(self.es_info))
        if key == (0x01, 0x06):
            self.log.append(("aa55-read", "runtime"))
            return self._respond_aa55(command, list(self.es_runtime))
        if key == (0x01, 0x09):
            self.log.append(("aa55-read", "settings"))
            return self._respond_aa55(command, list(self.es_settings))
        if key == (0x01, 0x1A):
            addr = _cint(_be16(data[0], data[1]))
            count = _cint(data[2])
            self.log.append(("aa55-read", addr, count))
            return self._respond_aa55(command, self.read_bytes(addr, count))
        if key == (0x02, 0x39):
            addr = _cint(_be16(data[0], data[1]))
            nbytes = _cint(data[2])
            payload = list(data[3:])
            self.log.append(("aa55-write", addr, payload, nbytes))
            self.write_bytes(addr, payload)
            if addr == 0x560 and self.es_settings is not None:
                self.es_settings[32:34] = payload[0:2]
            return self._respond_aa55(command, [0x06])
        # 03xx setters
        self.log.append(("aa55-set", t0, t1, list(data)))
        if self.es_settings is not None:
            if key == (0x03, 0x35):
                self.es_settings[52:54] = data[0:2]
            elif key == (0x03, 0x59):
                self.es_settings[66:68] = [0, data[0]]
        return self._respond_aa55(command, [0x06])


def _truth(x):
    if isinstance(x, SBool):
        return bool(x)
    return bool(x)


def drive(coro):
    """Run a coroutine that never really suspends (the simulated inverter answers synchronously)."""
    try:
        coro.send(None)
    except StopIteration as s:
        return s.value
    finally:
        coro.close()
    raise RuntimeError("coroutine suspended: the simulated inverter must answer synchronously")


def const_crc(_data):
    """CRC stand-in for the shimmed copy in API-level harnesses (the CRC itself is the subject of C01/K-CRC)."""
    return 0


class World:
    """One simulated device behind *every* protocol object of the process: ProtocolCommand.execute is replaced (class
    level) so that goodwe.connect()/discover() and inverter objects they create all talk to it.  The real
    Inverter._read_from_socket (failure counting) stays in place.

    device: dict(family='ET'|'DT'|'ES', serial=..., ...) — a probe of another family (other comm address / register
    space) gets no answer (MaxRetriesException, as the real execute() gives after its retries)."""

    def __init__(self, M, device, default=lambda a: 1, refuse=None, crc=None):
        from . import models
        self.M, self.device = M, device
        self.fake = FakeInverter(M, None, default=default, refuse=refuse, crc=crc)
        fam = device["family"]
        serial = device.get("serial", "95048ESU218W0001")
        if fam == "ET":
            self.fake.write_bytes(0x88b8, models.et_info_bytes(serial, device.get("rated_power", 10000)))
        elif fam == "DT":
            self.fake.write_bytes(0x7531, models.dt_info_bytes(serial))
        self.fake.es_info = models.es_info_bytes(serial, device.get("firmware", "2323G"))
        self.fake.es_runtime = bytes(142)
        self.fake.es_settings = list(bytes(86))
        self.protocols = []
        self._orig = None
        self.lose = lambda cmd: False      # hook: True = this request gets no answer (MaxRetriesException)
        self.on_answered = lambda cmd: None

    def answers(self, command):
        P = self.M.protocol
        fam = self.device["family"]
        req = command.request
        if isinstance(command, P.Aa55ProtocolCommand):
            f = _items(req)
            if (_cint(f[4]), _cint(f[5])) == (0x01, 0x02):
                return True   # every family answers the AA55 discovery / device info probe
            return fam == "ES"
        if isinstance(command, (P.ModbusRtuProtocolCommand, P.ModbusTcpProtocolCommand)):
            f = _items(req)
            comm = _cint(f[0] if isinstance(command, P.ModbusRtuProtocolCommand) else f[6])
            addr = command.first_address
            if fam == "DT":
                return comm == 0x7f and (30000 <= addr < 31000 or 40000 <= addr < 42000)
            if fam == "ET":
                return comm == 0xf7 and 35000 <= addr < 49000
            return comm == 0xf7 and 47000 <= addr < 48000  # ES: eco mode v2 registers over Modbus
        return True

    def __enter__(self):
        world = self
        PC = self.M.protocol.ProtocolCommand
        self._orig = PC.execute

        async def execute(cmd, protocol):
            if protocol not in world.protocols:
                world.protocols.append(protocol)
            if not world.answers(cmd):
                world.fake.log.append(("unanswered", type(cmd).__name__))
                raise world.M.exceptions.MaxRetriesException()
            if world.lose(cmd):
                world.fake.log.append(("lost", type(cmd).__name__))
                raise world.M.exceptions.MaxRetriesException()
            r = await world.fake.handle(cmd)
            world.on_answered(cmd)
            return r
        PC.execute = execute
        return self

    def __exit__(self, *a):
        self.M.protocol.ProtocolCommand.execute = self._orig
