"""C03 — requests on the wire are canonical, decodable frames carrying the arguments."""
from __future__ import annotations

import z3

from symx.core import Explorer, SInt, sym_int, cur
from symx.sbytes import SBytes
from vf.common import Harness, shimmed, real, explore, reset_mutable_class_state
from .validators import CrcStub, crc16_reference, _z

PROP = "C03"

KINDS = ("rtu_read", "rtu_write", "rtu_multi", "tcp_read", "tcp_write", "tcp_multi", "aa55_read", "aa55_write",
         "aa55_multi", "es_export_limit", "es_dod", "es_work_mode", "es_offgrid_mode", "es_limit_charge")


def build(P, M, kind, a, via_protocol):
    """Build the command exactly as the library does (M = goodwe package modules for the ES literal commands)."""
    if kind.startswith("rtu") or kind.startswith("tcp"):
        if via_protocol:
            cls_ = P.UdpInverterProtocol if kind.startswith("rtu") else P.TcpInverterProtocol
            port = 8899 if kind.startswith("rtu") else 502
            if a.get("comm2") is not None:
                # history: another protocol object of the same process (other comm address) built the same kind of
                # command for the same arguments just before
                other = cls_("127.0.0.2", port, a["comm2"], 1, 0)
                if kind.endswith("read"):
                    other.read_command(a["reg"], a["count"])
                elif kind.endswith("write"):
                    other.write_command(a["reg"], a["value"])
                else:
                    other.write_multi_command(a["reg"], a["payload"])
            proto = cls_("127.0.0.1", port, a["comm"], 1, 0)
            if kind.endswith("read"):
                return proto.read_command(a["reg"], a["count"])
            if kind.endswith("write"):
                return proto.write_command(a["reg"], a["value"])
            return proto.write_multi_command(a["reg"], a["payload"])
        cls = {"rtu_read": P.ModbusRtuReadCommand, "rtu_write": P.ModbusRtuWriteCommand,
               "rtu_multi": P.ModbusRtuWriteMultiCommand, "tcp_read": P.ModbusTcpReadCommand,
               "tcp_write": P.ModbusTcpWriteCommand, "tcp_multi": P.ModbusTcpWriteMultiCommand}[kind]
        third = a["count"] if kind.endswith("read") else a["value"] if kind.endswith("write") else a["payload"]
        return cls(a["comm"], a["reg"], third)
    if kind == "aa55_read":
        return P.Aa55ReadCommand(a["reg"], a["count"])
    if kind == "aa55_write":
        return P.Aa55WriteCommand(a["reg"], a["value"])
    if kind == "aa55_multi":
        return P.Aa55WriteMultiCommand(a["reg"], a["payload"])
    raise KeyError(kind)


class _Capture(BaseException):
    def __init__(self, cmd):
        self.cmd = cmd


def build_es(M, kind, a):
    """ES setter commands: run the real ES method with _read_from_socket intercepted to capture the command."""
    import asyncio
    inv = M.es.ES("127.0.0.1", 8899, 0, 1, 0)
    got = []

    async def fake(command):
        got.append(command)
        raise _Capture(command)
    inv._read_from_socket = fake
    coro = {"es_export_limit": lambda: inv.set_grid_export_limit(a["uvalue"]),
            "es_dod": lambda: inv.set_ongrid_battery_dod(a["pct"]),
            "es_work_mode": lambda: inv._set_work_mode(a["mode"]),
            "es_offgrid_mode": lambda: inv._set_offgrid_work_mode(a["mode"]),
            "es_limit_charge": lambda: inv._set_limit_power_for_charge(a["h1"], a["m1"], a["h2"], a["m2"], a["pct"]),
            }[kind]()
    try:
        coro.send(None)
    except _Capture as c:
        return c.cmd
    except StopIteration:
        return None
    finally:
        coro.close()
    return None


class RequestHarness(Harness):
    def __init__(self, kind, m=0, via_protocol=False):
        self.kind, self.m, self.via = kind, m, via_protocol
        self.name = "request"
        self.params = {"kind": kind, "m": m, "via_protocol": via_protocol}

    def _sym_args(self):
        a = {}
        k = self.kind
        if k[:3] in ("rtu", "tcp"):
            a["comm"] = sym_int("comm", 0, 255)
            if self.via:
                a["comm2"] = sym_int("comm2", 0, 255)
        if k.startswith("es_"):
            if k == "es_export_limit":
                a["uvalue"] = sym_int("uvalue", 0, 0xFFFF)
            elif k == "es_dod":
                a["pct"] = sym_int("pct", 0, 100)
            elif k in ("es_work_mode", "es_offgrid_mode"):
                a["mode"] = sym_int("mode", 0, 255)
            else:
                a["h1"] = sym_int("h1", 0, 23)
                a["m1"] = sym_int("m1", 0, 59)
                a["h2"] = sym_int("h2", 0, 23)
                a["m2"] = sym_int("m2", 0, 59)
                a["pct"] = sym_int("pct", 0, 100)
            return a
        a["reg"] = sym_int("reg", 0, 0xFFFF)
        if k.endswith("read"):
            a["count"] = sym_int("count", 1, 125)
        elif k.endswith("write"):
            a["value"] = sym_int("value", -32768, 32767)
        else:
            a["payload"] = SBytes.symbolic("payload", self.m)
        return a

    def expected(self, a, tx=None):
        """Reference encoding (list of int | z3 term), None where the byte is a checksum handled separately."""
        k = self.kind
        be = lambda v: [v / 256 % 256, v % 256] if not isinstance(v, int) else [v >> 8 & 255, v & 255]  # noqa: E731
        g = lambda n: a[n].e if isinstance(a[n], SInt) else a[n]  # noqa: E731
        if k[:3] in ("rtu", "tcp"):
            if k.endswith("read"):
                body = [g("comm"), 3] + be(g("reg")) + be(g("count"))
            elif k.endswith("write"):
                v = g("value")
                body = [g("comm"), 6] + be(g("reg")) + be(v % 65536)
            else:
                pl = [(_z(b) if not isinstance(b, int) else b) for b in a["payload"]]
                body = [g("comm"), 16] + be(g("reg")) + [0, self.m // 2, self.m] + pl
            if k.startswith("rtu"):
                return body + [None, None]
            return be(tx) + [0, 0] + be(len(body)) + body
        if k == "aa55_read":
            pl = [0x01, 0x1A, 3] + be(g("reg")) + [g("count")]
        elif k == "aa55_write":
            pl = [0x02, 0x39, 5] + be(g("reg")) + [1] + be(g("value") % 65536)
        elif k == "aa55_multi":
            pl = [0x02, 0x39, 3 + self.m] + be(g("reg")) + [self.m] + \
                 [(_z(b) if not isinstance(b, int) else b) for b in a["payload"]]
        elif k == "es_export_limit":
            pl = [0x03, 0x35, 2] + be(g("uvalue"))
        elif k == "es_dod":
            pl = [0x02, 0x39, 5] + be(0x560) + [1] + be(100 - g("pct"))
        elif k == "es_work_mode":
            pl = [0x03, 0x59, 1, g("mode")]
        elif k == "es_offgrid_mode":
            pl = [0x03, 0x36, 1, g("mode")]
        else:
            pl = [0x03, 0x2C, 5, g("h1"), g("m1"), g("h2"), g("m2"), g("pct")]
        return [0xAA, 0x55, 0xC0, 0x7F] + pl + [None, None]

    def symbolic(self, ex: Explorer) -> str:
        G = shimmed()
        stub = CrcStub()
        G.modbus._modbus_checksum = stub
        reset_mutable_class_state(G)
        a = self._sym_args()
        k = self.kind
        s = None
        if k.startswith("tcp"):
            s = sym_int("tx_state", 0, 0xFFFE)
            G.protocol._modbus_tcp_tx = s
        try:
            if k.startswith("es_"):
                cmd = build_es(G, k, a)
                if cmd is None:
                    ex.fail("setter transmitted nothing for an in-range argument")
            else:
                cmd = build(G.protocol, G, k, a, self.via)
            frames = [cmd.request_bytes()]
            if k.startswith("tcp"):
                frames.append(cmd.request_bytes())
        except Exception as e:  # noqa: BLE001
            ex.fail("building the request raised", f"{type(e).__name__}: {e}")
        finally:
            if k.startswith("tcp"):
                G.protocol._modbus_tcp_tx = 0
        txs = [None]
        if k.startswith("tcp"):
            t1 = z3.If(s.e + 1 == 0xFFFF, 1, s.e + 1)
            t2 = z3.If(t1 + 1 == 0xFFFF, 1, t1 + 1)
            txs = [t1, t2]
            for i, f in enumerate(frames):
                got = _z(f[0]) * 256 + _z(f[1])
                ex.check(z3.And(got != 0, got >= 1, got <= 0xFFFF), "transaction id is zero or out of range")
            ex.check(_z(frames[0][0]) * 256 + _z(frames[0][1]) != s.e, "transaction id did not change")
            ex.check(_z(frames[0][0]) * 256 + _z(frames[0][1]) != _z(frames[1][0]) * 256 + _z(frames[1][1]),
                     "transaction id did not change between consecutive transmissions")
            # invariant of the induction: the global stays inside 0..0xFFFE
        for f, tx in zip(frames, txs):
            exp = self.expected(a, tx)
            ex.check(len(f) == len(exp), "request has the wrong length", f"{len(f)} != {len(exp)}")
            conj = []
            for i, (got, want) in enumerate(zip(f, exp)):
                if want is None:
                    continue
                conj.append(_z(got) == (want if not isinstance(want, int) else z3.IntVal(want)))
            ex.check(z3.And(conj), "request bytes differ from the canonical encoding of the arguments")
            if k.startswith("rtu"):
                items = tuple(SBytes.of(f).items[:-2]) if not isinstance(f, bytes) else tuple(f[:-2])
                v = stub.result_for(items)
                ex.check(v is not None and True, "CRC was not computed over the frame body")
                ex.check(z3.And(_z(f[-2]) == v % 256, _z(f[-1]) == v / 256), "CRC bytes misplaced")
            elif not k.startswith("tcp"):
                total = z3.Sum([_z(b) for b in f[:-2]])
                ex.check(_z(f[-2]) * 256 + _z(f[-1]) == total % 65536, "AA55 checksum wrong")
        return "ok"

    # -- concrete ------------------------------------------------------------------------------------------
    def concrete(self, inputs):
        R = real()
        k = self.kind
        reset_mutable_class_state(R)
        a = {n: inputs[n] for n in ("comm", "comm2", "reg", "count", "value", "uvalue", "pct", "mode", "h1", "m1", "h2", "m2")
             if n in inputs}
        if k.endswith("multi"):
            a["payload"] = bytes(inputs.get(f"payload[{i}]", 0) for i in range(self.m))
        if k.startswith("tcp"):
            R.protocol._modbus_tcp_tx = inputs.get("tx_state", 0)
        viol = None
        frames = []
        try:
            cmd = build_es(R, k, a) if k.startswith("es_") else build(R.protocol, R, k, a, self.via)
            if cmd is None:
                return {"outcome": "nothing sent", "violation": f"{k}: nothing transmitted for an in-range argument",
                        "observed": str(a)}
            frames.append(bytes(cmd.request_bytes()))
            if k.startswith("tcp"):
                frames.append(bytes(cmd.request_bytes()))
        except Exception as e:  # noqa: BLE001
            return {"outcome": f"raised {type(e).__name__}", "violation": f"{k}: building the request raised {type(e).__name__}",
                    "observed": f"args={_fmt(a)} -> {type(e).__name__}: {e}"}
        finally:
            if k.startswith("tcp"):
                R.protocol._modbus_tcp_tx = 0
        prev_tx = inputs.get("tx_state", 0)
        for f in frames:
            d = decode_request(f)
            want = self._intended(a)
            if d is None or d["op"] != want or (k[:3] in ("rtu", "tcp") and ("tx" in d) != k.startswith("tcp")):
                viol = f"{k}: frame does not decode to the intended operation"
                break
            if k.startswith("tcp"):
                if d["tx"] == 0 or d["tx"] == prev_tx:
                    viol = f"{k}: transaction id zero or unchanged"
                    break
                prev_tx = d["tx"]
        return {"outcome": "ok", "violation": viol,
                "observed": f"args={_fmt(a)} tx_state={inputs.get('tx_state')} frames={[f.hex() for f in frames]}"}

    def _intended(self, a):
        k = self.kind
        if k.endswith("_read") and k[:3] in ("rtu", "tcp"):
            return ("read", a["comm"], a["reg"], a["count"])
        if k in ("rtu_write", "tcp_write"):
            return ("write", a["comm"], a["reg"], a["value"])
        if k in ("rtu_multi", "tcp_multi"):
            return ("multi", a["comm"], a["reg"], a["payload"])
        if k == "aa55_read":
            return ("aa55", 0x01, 0x1A, bytes([a["reg"] >> 8, a["reg"] & 255, a["count"]]))
        if k == "aa55_write":
            return ("aa55", 0x02, 0x39, bytes([a["reg"] >> 8, a["reg"] & 255, 1]) + (a["value"] % 65536).to_bytes(2, "big"))
        if k == "aa55_multi":
            return ("aa55", 0x02, 0x39, bytes([a["reg"] >> 8, a["reg"] & 255, self.m]) + a["payload"])
        if k == "es_export_limit":
            return ("aa55", 0x03, 0x35, a["uvalue"].to_bytes(2, "big"))
        if k == "es_dod":
            return ("aa55", 0x02, 0x39, bytes([0x05, 0x60, 1]) + (100 - a["pct"]).to_bytes(2, "big"))
        if k == "es_work_mode":
            return ("aa55", 0x03, 0x59, bytes([a["mode"]]))
        if k == "es_offgrid_mode":
            return ("aa55", 0x03, 0x36, bytes([a["mode"]]))
        return ("aa55", 0x03, 0x2C, bytes([a["h1"], a["m1"], a["h2"], a["m2"], a["pct"]]))


def _fmt(a):
    return {k: (v.hex() if isinstance(v, bytes) else v) for k, v in a.items()}


def decode_request(f: bytes):
    """Independent decoder of the three request framings (written from the protocol descriptions)."""
    if len(f) >= 9 and f[:4] == b"\xaa\x55\xc0\x7f":
        if f[6] != len(f) - 9 or sum(f[:-2]) % 65536 != int.from_bytes(f[-2:], "big"):
            return None
        return {"op": ("aa55", f[4], f[5], bytes(f[7:-2]))}
    # Modbus/TCP: MBAP header
    if len(f) >= 12 and f[2:4] == b"\x00\x00" and int.from_bytes(f[4:6], "big") == len(f) - 6 and f[7] in (3, 6, 16):
        pdu = f[6:]
        op = _decode_pdu(pdu)
        return None if op is None else {"op": op, "tx": int.from_bytes(f[0:2], "big")}
    if len(f) >= 8 and crc16_reference(f[:-2]) == f[-2] + 256 * f[-1]:
        op = _decode_pdu(f[:-2])
        return None if op is None else {"op": op}
    return None


def _decode_pdu(p: bytes):
    comm, fn = p[0], p[1]
    reg = int.from_bytes(p[2:4], "big")
    if fn == 3 and len(p) == 6:
        return ("read", comm, reg, int.from_bytes(p[4:6], "big"))
    if fn == 6 and len(p) == 6:
        return ("write", comm, reg, int.from_bytes(p[4:6], "big", signed=True))
    if fn == 16 and len(p) >= 7:
        nreg, nbytes = int.from_bytes(p[4:6], "big"), p[6]
        if nbytes != len(p) - 7 or nreg * 2 != nbytes:
            return None
        return ("multi", comm, reg, bytes(p[7:]))
    return None


def tasks(tier, seed):
    inst = []
    ms = (2, 4, 8, 12, 246) if tier == "quick" else tuple(range(2, 247, 2))
    for k in KINDS:
        vias = (False, True) if k[:3] in ("rtu", "tcp") else (False,)
        for via in vias:
            if k in ("rtu_multi", "tcp_multi"):
                for m in ms:
                    inst.append((k, m, via))
            elif k == "aa55_multi":
                inst.append((k, 8, via))
            else:
                inst.append((k, 0, via))
    n = 16 if tier == "quick" else 32
    ts = [{"name": f"requests-{i}", "instances": inst[i::n]} for i in range(n) if inst[i::n]]
    # wire view: what the scripted peer receives for one request under faults (retransmissions, reconnects)
    from .c04 import CONFIGS_QUICK, CONFIGS_C04_EXTRA
    from . import transport as TR
    cfgs = [c for c in CONFIGS_QUICK if c["retries"] >= 1] + CONFIGS_C04_EXTRA
    if tier == "thorough":
        cfgs += [{"transport": t, "keep_alive": ka, "T": 2, "retries": 2} for t in ("udp", "tcp") for ka in (False, True)]
        cfgs += [{"transport": "tcp", "keep_alive": ka, "T": 2, "retries": 2, "tx_start": 0xFFFD} for ka in (False, True)]
    for i, c in enumerate(cfgs):
        for k0 in WIRE_KINDS:
            ts.append({"name": f"wire-{i}-{k0}", "fn": "wire", "scen": c, "first": k0})
        if c["transport"] == "tcp":
            for conn0 in range(len(TR.CONNECT)):
                ts.append({"name": f"wire-{i}-connect{conn0}", "fn": "wire", "scen": c, "first": None, "conn0": conn0})
    return ts


WIRE_KINDS = ["drop", "answer", "short_garbage", "exception", "lone_fragment", "peer_closes", "send_error"]


def _wire(scen, first, conn0=None):
    from .c04 import PinnedFirst, PinnedConnect
    h = PinnedFirst(scen, WIRE_KINDS, first) if first is not None else PinnedConnect(scen, ["drop", "answer", "peer_closes"], conn0)
    h.prop, h.name = PROP, "wire-request"
    return h


def run_task(task):
    if task.get("fn") == "wire":
        return {"harnesses": [explore(_wire(task["scen"], task["first"], task.get("conn0")), max_paths=20000, max_seconds=900,
                                      witnesses_per_outcome=1)]}
    return {"harnesses": [explore(RequestHarness(k, m, via), max_paths=5000, max_seconds=600)
                          for k, m, via in task["instances"]]}


def replay(case):
    p = case["params"]
    if case["harness"] == "wire-request":
        return _wire(p["scenario"], p.get("first"), p.get("conn0")).concrete(case["inputs"])
    return RequestHarness(p["kind"], p["m"], p["via_protocol"]).concrete(case["inputs"])


def evidence_meta(tier):
    return {
        "level": "model_checking",
        "rule": "one state = one path of the real request builders with symbolic arguments; every produced byte is "
                "compared by z3 with the canonical encoding for all argument values of that path",
        "bounds": {"comm": "0..255", "register": "0..65535", "count": "1..125", "value": "-32768..32767",
                   "write_multi_payload_bytes": "2,4,8,12,246 (quick) / every even length 2..246 (thorough)",
                   "aa55_multi": "8-byte groups", "tx_state": "any value of the invariant 0..0xFFFE (inductive step, "
                   "covers histories of any length incl. the wrap)",
                   "history": "via the protocol object: another protocol object (any comm address) built the same command before",
                   "wire": "one read request (ET register read; ES runtime command for AA55) against the scripted peer of C04: "
                "udp/tcp x keep-alive, retries 1 (2 in thorough), first kind pinned, connect faults on TCP, transaction "
                "counter starting at 0, 0xFFFE (and 0xFFFD thorough); every transmitted frame decoded independently"},
        "outside": ["AA55 multi-register writes of other than 8 bytes (class hard-codes the length byte; only caller "
                    "uses 8)", "ES setter arguments outside 0..65535 / 0..255"],
        "assumptions": ["_modbus_checksum stubbed by an uninterpreted function; K-CRC (see C01) closes the gap",
                        "transaction-id claim is inductive: Inv(s) = 0<=s<=0xFFFE, initial value 0"],
    }
