"""Harness shared by C01 (only validated frames are accepted), C02 (every conforming frame is accepted) and the
kernel half of C08: the three response validators, reached through ``command.validator`` of the real command
classes, on a frame of n fully symbolic bytes."""
from __future__ import annotations

import z3

from symx.core import Explorer, SInt, SBool, sym_int, cur
from symx.sbytes import SBytes
from vf.common import Harness, shimmed, real

MODBUS_REASONS = {1: "ILLEGAL FUNCTION", 2: "ILLEGAL DATA ADDRESS", 3: "ILLEGAL DATA VALUE", 4: "SLAVE DEVICE FAILURE",
                  5: "ACKNOWLEDGE", 6: "SLAVE DEVICE BUSY", 7: "NEGATIVE ACKNOWLEDGEMENT", 8: "MEMORY PARITY ERROR",
                  10: "GATEWAY PATH UNAVAILABLE", 11: "GATEWAY TARGET DEVICE FAILED TO RESPOND"}


def crc16_reference(data: bytes) -> int:
    """Bitwise CRC-16/MODBUS (poly 0xA001 reflected, init 0xFFFF) — written from the standard, not from goodwe."""
    crc = 0xFFFF
    for b in data:
        crc ^= b
        for _ in range(8):
            crc = (crc >> 1) ^ 0xA001 if crc & 1 else crc >> 1
    return crc


class CrcStub:
    """Uninterpreted stand-in for _modbus_checksum: a fresh 16-bit value per call, arguments recorded."""

    def __init__(self):
        self.calls = []

    def __call__(self, data):
        ex = cur()
        name = ex.fresh_name("crc")
        v = z3.Int(name)
        ex.assume(z3.And(v >= 0, v <= 0xFFFF))
        ex.inputs[name] = v
        items = tuple(data.items) if hasattr(data, "items") and not isinstance(data, dict) else tuple(data)
        self.calls.append((items, v))
        return SInt(v)

    def result_for(self, items):
        """z3 term of the stub result for exactly this argument (same terms), or None if never computed."""
        for args, v in self.calls:
            if len(args) == len(items) and all(_same(a, b) for a, b in zip(args, items)):
                return v
        return None


def _same(a, b):
    if isinstance(a, int) and isinstance(b, int):
        return a == b
    if isinstance(a, SInt) and isinstance(b, SInt):
        return a.e.eq(b.e)
    return False


def _z(b):
    return b.e if isinstance(b, SInt) else z3.IntVal(b)


# ---------------------------------------------------------------------------------------------------------------
# command construction (symbolic + concrete twin)
# ---------------------------------------------------------------------------------------------------------------
KINDS = {
    "rtu": ("read", "write", "multi"),
    "tcp": ("read", "write", "multi"),
    "aa55": ("es_info", "es_running", "es_settings", "discovery", "a_read", "a_write", "a_multi"),
}


def make_command(P, I, framing, kind, m, args):
    """P: goodwe.protocol module, I: goodwe package (for literal commands); args: dict of ints or SInts."""
    if framing == "rtu":
        if kind == "read":
            return P.ModbusRtuReadCommand(args["comm"], args["reg"], args["count"])
        if kind == "write":
            return P.ModbusRtuWriteCommand(args["comm"], args["reg"], args["value"])
        return P.ModbusRtuWriteMultiCommand(args["comm"], args["reg"], args["payload"])
    if framing == "tcp":
        if kind == "read":
            return P.ModbusTcpReadCommand(args["comm"], args["reg"], args["count"])
        if kind == "write":
            return P.ModbusTcpWriteCommand(args["comm"], args["reg"], args["value"])
        return P.ModbusTcpWriteMultiCommand(args["comm"], args["reg"], args["payload"])
    if kind == "es_info":
        return I.es.ES._READ_DEVICE_VERSION_INFO
    if kind == "es_running":
        return I.es.ES._READ_DEVICE_RUNNING_DATA
    if kind == "es_settings":
        return I.es.ES._READ_DEVICE_SETTINGS_DATA
    if kind == "discovery":
        return I.pkg.DISCOVERY_COMMAND
    if kind == "a_read":
        return P.Aa55ReadCommand(args["reg"], args["count"])
    if kind == "a_write":
        return P.Aa55WriteCommand(args["reg"], args["uvalue"])
    return P.Aa55WriteMultiCommand(args["reg"], args["payload"])


AA55_TYPES = {"es_info": (0x01, 0x82), "es_running": (0x01, 0x86), "es_settings": (0x01, 0x89),
              "discovery": (0x01, 0x82), "a_read": (0x01, 0x9A), "a_write": (0x02, 0xB9), "a_multi": (0x02, 0xB9)}


class ValidatorHarness(Harness):
    """mode 'C01': accept => well-formed, outcome typing, partial bookkeeping;  mode 'C02': refuse => not conforming,
    accepted payload is delivered unchanged."""

    def __init__(self, mode, framing, kind, n, m=4):
        self.mode, self.framing, self.kind, self.n, self.m = mode, framing, kind, n, m
        self.name = f"validator[{mode}]"
        self.params = {"framing": framing, "kind": kind, "n": n, "m": m}

    # -- symbolic ------------------------------------------------------------------------------------------
    def _sym_args(self):
        a = {}
        if self.framing in ("rtu", "tcp"):
            a["comm"] = sym_int("comm", 0, 255)
        a["reg"] = sym_int("reg", 0, 0xFFFF)
        if self.kind in ("read", "a_read"):
            a["count"] = sym_int("count", 1, 125)
        if self.kind == "write":
            a["value"] = sym_int("value", -32768, 32767)
        if self.kind == "a_write":
            a["uvalue"] = sym_int("uvalue", 0, 0xFFFF)
        if self.kind in ("multi", "a_multi"):
            a["payload"] = SBytes.symbolic("payload", self.m if self.kind == "multi" else 8)
        return a

    def wellformed(self, d, a, stub, strict_crc):
        """z3 formula: frame d (list of z3 terms, concrete length n) is a well-formed answer to the request.
        strict_crc=True (C01): the checksum must have been computed over exactly the right slice and equal the
        trailer.  strict_crc=False (C02, 'conforming'): a checksum that was never computed is unconstrained."""
        n = self.n
        F = z3.BoolVal(False)

        def crc_rel(lo, hi, tr):
            v = stub.result_for(tuple(self._d_items[lo:hi]))
            if v is None:
                return F if strict_crc else z3.BoolVal(True)
            return v == d[tr] + 256 * d[tr + 1]

        if self.framing == "rtu":
            if self.kind == "read":
                if n < 9:
                    return F
                cnt = a["count"].e
                base = z3.And(d[3] == 3, d[4] == 2 * cnt, 2 * cnt + 7 <= n)
                rels = []
                for args, v in stub.calls:
                    L = len(args) + 4
                    if L % 2 == 0 or L < 9 or L > n:
                        continue
                    if all(_same(x, y) for x, y in zip(args, self._d_items[2:L - 2])):
                        rels.append(((L - 7) // 2, v == d[L - 2] + 256 * d[L - 1]))
                if strict_crc:
                    return z3.And(base, z3.Or([z3.And(cnt == c, rel) for c, rel in rels])) if rels else F
                return z3.And(base, *[z3.Implies(cnt == c, rel) for c, rel in rels])
            if n < 10:
                return F
            fn = 6 if self.kind == "write" else 16
            val = a["value"].e % 65536 if self.kind == "write" else z3.IntVal(self.m // 2)
            return z3.And(d[3] == fn, d[4] * 256 + d[5] == a["reg"].e, d[6] * 256 + d[7] == val,
                          crc_rel(2, 8, 8))
        if self.framing == "tcp":
            if self.kind == "read":
                cnt = a["count"].e
                return z3.And(d[7] == 3, d[8] == 2 * cnt, 2 * cnt + 9 <= n) if n >= 9 else F
            if n < 12:
                return F
            fn = 6 if self.kind == "write" else 16
            val = a["value"].e % 65536 if self.kind == "write" else z3.IntVal(self.m // 2)
            return z3.And(d[7] == fn, d[8] * 256 + d[9] == a["reg"].e, d[10] * 256 + d[11] == val)
        # aa55
        if n < 9:
            return F
        t0, t1 = AA55_TYPES[self.kind]
        return z3.And(d[6] == n - 9, d[4] == t0, d[5] == t1, z3.Sum(d[:n - 2]) == d[n - 2] * 256 + d[n - 1])

    def announced_length(self, d):
        if self.framing == "rtu":
            return d[4] + 7
        if self.framing == "tcp":
            return d[8] + 9
        return d[6] + 9

    def symbolic(self, ex: Explorer) -> str:
        G = shimmed()
        stub = CrcStub()
        G.modbus._modbus_checksum = stub
        a = self._sym_args()
        cmd = make_command(G.protocol, G, self.framing, self.kind, self.m, a)
        stub.calls.clear()  # calls made while building the request are not the validator's
        data = SBytes.symbolic("d", self.n)
        self._d_items = list(data.items)
        d = [_z(b) for b in data.items]
        X = G.exceptions
        try:
            res = cmd.validator(data)
            if res is True or res is False:
                outcome = "accept" if res else "refuse"
            else:
                ex.fail("validator returned a non-bool", repr(res))
        except X.PartialResponseException as e:
            outcome = "partial"
            if self.mode == "C01":
                ann = {"rtu": 4, "tcp": 8, "aa55": 6}[self.framing]
                ex.check(z3.And(_z(e.length) == self.n, _z(e.expected) > self.n,
                                _z(e.expected) == self.announced_length(d)) if self.n > ann
                         else z3.BoolVal(False), "partial outcome does not describe the frame",
                         f"length={e.length!r} expected={e.expected!r}")
        except X.RequestRejectedException as e:
            outcome = "rejected"
            self._reject_message = e.message
        except Exception as e:  # noqa: BLE001  (only Exception: engine control flow is BaseException)
            ex.fail("validator raised an undocumented exception", f"{type(e).__name__}: {e}")
        if self.mode == "C01":
            if outcome == "accept":
                ex.check(self.wellformed(d, a, stub, True), "accepted frame is not a well-formed answer")
        elif self.mode == "C02":
            if outcome != "accept":
                ex.check(z3.Not(self.wellformed(d, a, stub, False)), "conforming frame was not accepted",
                         f"outcome={outcome}")
            else:
                resp = G.protocol.ProtocolResponse(data, cmd)
                got = resp.response_data()
                exp = self.expected_payload(data, a)
                if exp is not None:
                    exact, want = exp
                    if exact:
                        ok = SBytes.of(got).eq_expr(want) if len(got) == len(want) else z3.BoolVal(False)
                    else:
                        ok = SBytes.of(got)[:len(want)].eq_expr(want) if len(got) >= len(want) else z3.BoolVal(False)
                    ex.check(ok, "delivered payload differs from the payload of the accepted frame")
        return outcome

    def expected_payload(self, data, a):
        """(exact?, SBytes payload) for read answers on the accept path (count is fixed by the path condition)."""
        n = self.n
        if self.framing == "rtu" and self.kind == "read":
            c = cur().concretize(a["count"].e)
            return (n == 2 * c + 7, data[5:5 + 2 * c])
        if self.framing == "tcp" and self.kind == "read":
            c = cur().concretize(a["count"].e)
            return (n == 2 * c + 9, data[9:9 + 2 * c])
        if self.framing == "aa55":
            return (True, data[7:n - 2])
        return None

    # -- concrete ------------------------------------------------------------------------------------------
    def _conc_args(self, inputs):
        a = {k: inputs[k] for k in ("comm", "reg", "count", "value", "uvalue") if k in inputs}
        if self.kind in ("multi", "a_multi"):
            m = self.m if self.kind == "multi" else 8
            a["payload"] = bytes(inputs.get(f"payload[{i}]", 0) for i in range(m))
        return a

    def concrete_wellformed(self, frame: bytes, a) -> bool:
        n = len(frame)
        if self.framing == "rtu":
            if self.kind == "read":
                c = a["count"]
                L = 2 * c + 7
                return n >= L and frame[3] == 3 and frame[4] == 2 * c and \
                    crc16_reference(frame[2:L - 2]) == frame[L - 2] + 256 * frame[L - 1]
            fn = 6 if self.kind == "write" else 16
            val = a["value"] % 65536 if self.kind == "write" else self.m // 2
            return n >= 10 and frame[3] == fn and frame[4] * 256 + frame[5] == a["reg"] and \
                frame[6] * 256 + frame[7] == val and crc16_reference(frame[2:8]) == frame[8] + 256 * frame[9]
        if self.framing == "tcp":
            if self.kind == "read":
                c = a["count"]
                return n >= 9 + 2 * c and frame[7] == 3 and frame[8] == 2 * c
            fn = 6 if self.kind == "write" else 16
            val = a["value"] % 65536 if self.kind == "write" else self.m // 2
            return n >= 12 and frame[7] == fn and frame[8] * 256 + frame[9] == a["reg"] and \
                frame[10] * 256 + frame[11] == val
        t0, t1 = AA55_TYPES[self.kind]
        return n >= 9 and frame[6] == n - 9 and frame[4] == t0 and frame[5] == t1 and \
            sum(frame[:n - 2]) == frame[n - 2] * 256 + frame[n - 1]

    def _repair_crc(self, frame: bytearray, inputs):
        """Make the real CRC relation agree with what the solver model assumed for the stub: for every recorded stub
        call crc!k over frame[2:hi] the model says whether it equals the trailer; patch the trailer accordingly."""
        n = len(frame)
        crc_vals = [v for k, v in sorted(inputs.items()) if k.startswith("crc!")]
        if self.framing != "rtu" or n < 5 or not crc_vals:
            return
        # where does the real validator look? derive L the same way the (unchanged) property describes it
        if frame[3] == 3:
            L = frame[4] + 7
        elif frame[3] in (6, 16):
            L = 10
        else:
            L = n
        if L > n or L < 4:
            return
        model_equal = crc_vals[-1] == frame[L - 2] + 256 * frame[L - 1]
        realcrc = crc16_reference(bytes(frame[2:L - 2]))
        if L - 2 < 5 and frame[3] not in (3, 6, 16):
            return "overlap"  # trailer overlaps the header bytes: cannot be patched
        if model_equal:
            frame[L - 2], frame[L - 1] = realcrc & 0xFF, realcrc >> 8
        elif realcrc == frame[L - 2] + 256 * frame[L - 1]:
            frame[L - 1] ^= 0x01

    def concrete(self, inputs: dict) -> dict:
        R = real()
        a = self._conc_args(inputs)
        cmd = make_command(R.protocol, R, self.framing, self.kind, self.m, a)
        frame = bytearray(inputs.get(f"d[{i}]", 0) for i in range(self.n))
        stubbed = self._repair_crc(frame, inputs) == "overlap"
        frame = bytes(frame)
        X = R.exceptions
        viol = None
        saved = self._saved_crc = R.modbus._modbus_checksum
        if stubbed:
            # 5/6-byte frames with a foreign function code: the 'trailer' overlaps the header bytes, the model's
            # CRC value cannot be realised by patching; evaluate the real validator with the model's CRC values
            vals = [v for k, v in sorted(inputs.items(), key=lambda kv: int(kv[0][4:]) if kv[0].startswith("crc!") else -1)
                    if k.startswith("crc!")][-1:]
            R.modbus._modbus_checksum = lambda data, _v=vals: _v[0]
        try:
            return self._concrete_run(R, X, cmd, frame, a, stubbed)
        finally:
            R.modbus._modbus_checksum = saved

    def _concrete_run(self, R, X, cmd, frame, a, stubbed):
        viol = None
        try:
            res = cmd.validator(frame)
            outcome = "accept" if res is True else "refuse" if res is False else f"returned {res!r}"
            if res is not True and res is not False:
                viol = "validator returned a non-bool"
        except X.PartialResponseException as e:
            outcome = "partial"
            ann = {"rtu": 4, "tcp": 8, "aa55": 6}[self.framing]
            off = {"rtu": 7, "tcp": 9, "aa55": 9}[self.framing]
            if self.mode == "C01" and not (len(frame) > ann and e.length == len(frame) < e.expected == frame[ann] + off):
                viol = f"{self.framing}/{self.kind}: partial outcome does not describe the frame"
        except X.RequestRejectedException:
            outcome = "rejected"
        except Exception as e:  # noqa: BLE001
            outcome = f"raised {type(e).__name__}"
            viol = f"{self.framing}/{self.kind}: validator raised {type(e).__name__}"
        wf = self.concrete_wellformed(frame, a)
        if stubbed:
            # The model relies on a CRC value that cannot be patched in (the 'trailer' overlaps the header of a 5/6
            # byte frame).  Decide by brute force over the bytes the CRC covers whether a real frame of this shape
            # shows the violation; if none does, the model is an artefact of the uninterpreted CRC (spurious).
            found = None
            if self.mode == "C01" and outcome == "accept":
                R.modbus._modbus_checksum = self._saved_crc
                for b2 in range(256):
                    for rest in range(256 if len(frame) == 6 else 1):
                        f2 = bytearray(frame)
                        f2[2] = b2
                        if len(frame) == 6:
                            f2[3] = rest
                        c = crc16_reference(bytes(f2[2:len(f2) - 2]))
                        f2[-2], f2[-1] = c & 0xFF, c >> 8
                        try:
                            if cmd.validator(bytes(f2)) is True and not self.concrete_wellformed(bytes(f2), a):
                                found = bytes(f2)
                                break
                        except Exception:  # noqa: BLE001
                            pass
                    if found:
                        break
            if found:
                return {"outcome": outcome, "violation": f"{self.framing}/{self.kind}: accepted a frame that is not a well-formed answer",
                        "observed": f"frame={found.hex()} accepted"}
            return {"outcome": outcome, "violation": None, "spurious": True,
                    "observed": f"frame={frame.hex()} (crc stubbed, no real frame of this shape) outcome={outcome}"}
        if self.mode == "C01" and outcome == "accept" and not wf:
            viol = f"{self.framing}/{self.kind}: accepted a frame that is not a well-formed answer"
        if self.mode == "C02":
            if outcome != "accept" and wf:
                sub = ""
                if self.framing == "aa55" and sum(frame[:-2]) >= 0x8000:
                    sub = " (byte sum >= 0x8000)"
                viol = f"{self.framing}/{self.kind}: conforming frame refused ({outcome}){sub}"
            if outcome == "accept" and wf:
                got = R.protocol.ProtocolResponse(frame, cmd).response_data()
                want = None
                if self.framing == "rtu" and self.kind == "read":
                    want = (len(frame) == 2 * a["count"] + 7, frame[5:5 + 2 * a["count"]])
                elif self.framing == "tcp" and self.kind == "read":
                    want = (len(frame) == 2 * a["count"] + 9, frame[9:9 + 2 * a["count"]])
                elif self.framing == "aa55":
                    want = (True, frame[7:-2])
                if want and ((want[0] and got != want[1]) or (not want[0] and got[:len(want[1])] != want[1])):
                    viol = f"{self.framing}/{self.kind}: delivered payload differs from the frame's payload"
        return {"outcome": outcome, "violation": viol,
                "observed": f"frame={frame.hex()} args={ {k: (v.hex() if isinstance(v, bytes) else v) for k, v in a.items()} } "
                            f"outcome={outcome} wellformed={wf}"}


def lengths(tier, framing, kind, m):
    """Frame lengths explored: every n up to a bound, plus the neighbourhood of the full frame for large counts."""
    if tier == "quick":
        ns = set(range(0, 25))
        for c in (1, 61, 125):
            L = 2 * c + (7 if framing == "rtu" else 9)
            ns.update((L - 1, L, L + 1))
        if framing == "aa55":
            ns.update((137, 138, 139, 140, 200, 263, 264))
        return sorted(ns)
    return list(range(0, 265))
