"""C04 — every request terminates after at most retries+1 transmissions."""
from __future__ import annotations

import asyncio

import z3

from symx.core import Explorer, SInt, to_z3
from symx import vworld
from vf.common import Harness, shimmed, real, explore
from . import transport as TR

PROP = "C04"


def _ge(a, b):
    """a >= b as python bool or z3 Bool"""
    if isinstance(a, (int, float)) and isinstance(b, (int, float)):
        return a >= b
    return to_z3(a) >= to_z3(b)


class OneRequest(Harness):
    """One read request through Inverter._read_from_socket against a scripted peer."""

    name = "one-request"

    def __init__(self, scen, kinds, connect_faults=False, prop="C04"):
        self.scen_params = dict(scen)
        self.kinds = list(kinds)
        self.connect_faults = connect_faults
        self.prop = prop
        self.params = {"scenario": self.scen_params, "kinds": self.kinds, "connect_faults": connect_faults}

    def scenario(self):
        s = TR.Scenario(**{k: v for k, v in self.scen_params.items() if k != "tx_start"})
        s.connect_faults = self.connect_faults
        return s

    def _run(self, M, script):
        scen = self.scenario()
        T, R = scen.T, scen.retries
        world = vworld.World(max_time=(R + 3) * (T + 6) + 4 * T, max_transmissions=R + 1, max_connects=R + 2)
        obs = TR.Obs()
        obs.delivered = []
        with world:
            loop = world.new_loop()
            inv = scen.make_inverter(M)
            if scen.tcp:
                # process-global Modbus/TCP transaction counter: optionally just below its 16-bit wrap
                M.protocol._modbus_tcp_tx = self.scen_params.get("tx_start", 0)
            cmd = inv._READ_DEVICE_RUNNING_DATA if scen.aa55 else inv._read_command(scen.register, scen.count)
            world.peer_send, world.peer_connect = scen.peer(world, lambda: loop, script, lambda d: 0, obs.delivered)
            obs.exc, obs.result, obs.abort = None, None, None
            try:
                obs.result = vworld.run(loop, inv._read_from_socket(cmd))
            except vworld.Hang as e:
                obs.abort = "hang"
            except vworld.LiveLock as e:
                obs.abort = "livelock: " + str(e)
            except Exception as e:  # noqa: BLE001
                obs.exc = e
            except asyncio.CancelledError as e:
                obs.exc = e
            obs.t_done = world.now
            obs.tx = list(world.transmissions)
            obs.events_at_done = list(world.events)
            obs.delivered_at_done = list(obs.delivered)
            obs.open_at_done = len(world.open_sockets())
            # drain: late peer events and stale timers run to quiescence (callback exceptions land in loop.unhandled)
            obs.drain_abort = None
            if obs.abort is None:
                try:
                    vworld.run(loop, asyncio.sleep(3 * T + 4))
                except (vworld.Hang, vworld.LiveLock) as e:
                    obs.drain_abort = type(e).__name__
                except BaseException as e:  # noqa: BLE001
                    obs.drain_abort = type(e).__name__
            obs.unhandled = list(loop.unhandled)
            obs.open_after_drain = len(world.open_sockets())
            obs.outcome = TR.classify(M, obs.exc) if obs.abort is None else obs.abort
            obs.request = cmd.request
        return obs

    # -- monitor ---------------------------------------------------------------------------------------------
    def verdict(self, obs, check, fail):
        scen = self.scenario()
        T, R = scen.T, scen.retries
        n = len(obs.tx)
        if self.prop == "C03":
            # wire view of C03: every transmission (first or retransmission, after connect faults too) is a canonical
            # frame that an independent decoder parses back to the intended operation; Modbus/TCP transaction ids are
            # non-zero and change with every transmission
            from .c03 import decode_request
            want = ("aa55", 0x01, 0x06, b"") if scen.aa55 else ("read", 0xF7, scen.register, scen.count)
            prev = self.scen_params.get("tx_start", 0)
            for i, (_, d, _) in enumerate(obs.tx):
                dec = decode_request(bytes(d))
                if dec is None or dec["op"] != want:
                    fail("a transmitted frame does not decode to the intended operation", f"tx {i}: {bytes(d).hex()}")
                if scen.tcp:
                    if dec["tx"] == 0 or dec["tx"] == prev:
                        fail("Modbus/TCP transaction id is zero or did not change with the transmission",
                             f"tx {i}: id {dec['tx']} after {prev}")
                    prev = dec["tx"]
            return
        if n > R + 1:
            fail("more than retries+1 transmissions", f"{n} transmissions")
        if obs.abort is not None and "connection attempts" in obs.abort:
            fail("more than retries+1 connection attempts", obs.abort)
        if obs.abort is not None:
            fail(f"request did not terminate ({obs.abort.split(':')[0]})", obs.abort)
        base = bytes(obs.tx[0][1]) if obs.tx else b""
        for (_, d, _) in obs.tx:
            d = bytes(d)
            if (d[2:] != base[2:]) if scen.tcp else (d != base):
                fail("retransmission differs from the first transmission")
        if not obs.outcome.startswith(("response", "rejected", "failed")) and obs.abort is None:
            fail("request ended with an exception outside the documented outcomes", obs.outcome)
        if self.prop == "C09" and obs.unhandled:
            fail("exception left unhandled in an event-loop callback", str(obs.unhandled[0].get("exception"))[:200])
        # completion no later than one timeout after the last event of the final attempt
        cands = [t for (t, _, _) in obs.tx] + [t for (t, _, _) in obs.delivered_at_done]
        cands += [e[1] + 5 - T for e in obs.events_at_done if e[0] == "connect"]   # connect attempts are bounded by 5
        if not cands:
            cands = [0]
        conds = [_ge(c + T, obs.t_done) for c in cands]
        if not any(c is True for c in conds):
            zs = [c for c in conds if c is not False]
            check(z3.Or(zs) if zs else False, "request completed later than one timeout after its last event",
                  f"t_done={obs.t_done!r}")
        # silent peer: exactly retries+1 identical transmissions, one timeout apart, failure one timeout after the last
        if all(TR.KINDS[self._k(i)] == "drop" for i in range(n)) and not self.connect_faults and obs.outcome == "failed":
            if n != R + 1:
                fail("silent peer: not exactly retries+1 transmissions", str(n))
            for i, (t, _, _) in enumerate(obs.tx):
                check(_eqz(t, i * T), "silent peer: transmissions are not one timeout apart", f"tx {i} at {t!r}")
            check(_eqz(obs.t_done, (R + 1) * T), "silent peer: failure not reported one timeout after the last transmission",
                  f"t_done={obs.t_done!r}")

    def symbolic(self, ex):
        G = shimmed()
        G.modbus._modbus_checksum = TR.hybrid_crc(G.orig_checksum)
        script = TR.SymScript(self.kinds, self.scenario().T)
        self._k = lambda i: script.cache.get(f"k0_{i}", 0)
        obs = self._run(G, script)

        def check(c, label, detail=""):
            if c is True:
                return
            if c is False:
                ex.fail(label, detail)
            ex.check(c, label, detail)
        self.verdict(obs, check, ex.fail)
        return obs.outcome.split(":")[0] + f"/{len(obs.tx)}tx"

    def concrete(self, inputs):
        R = real()
        script = TR.DictScript(inputs, self.scenario().T)
        self._k = lambda i: inputs.get(f"k0_{i}", 0)
        obs = self._run(R, script)
        viol = []

        class Stop(Exception):
            pass

        def fail(label, detail=""):
            viol.append((label, detail))
            raise Stop()

        def check(c, label, detail=""):
            if c is True:
                return
            if c is False or not bool(c):
                fail(label, detail)
        try:
            self.verdict(obs, check, fail)
        except Stop:
            pass
        sp = self.scen_params
        desc = describe_budget(inputs, len(obs.tx), sp["retries"] + 1)
        if self.connect_faults:
            nconn = sum(1 for e in obs.events_at_done if e[0] == "connect")
            desc = "connect " + ">".join(TR.CONNECT[inputs.get(f"p_conn{j}", 0)] for j in range(min(nconn, sp["retries"] + 1))) + " | " + desc
        key = None
        if viol:
            key = f"{sp['transport']}{' keep-alive' if sp['keep_alive'] else ''}: {viol[0][0]} [{desc}]"
        return {"outcome": obs.outcome.split(":")[0] + f"/{len(obs.tx)}tx", "violation": key,
                "observed": f"scenario={sp} script={ {k: v for k, v in sorted(inputs.items())} } outcome={obs.outcome} "
                            f"tx_times={[t for t, _, _ in obs.tx]} t_done={obs.t_done} {viol[0][1] if viol else ''}"}


def _eqz(a, b):
    if isinstance(a, (int, float)) and isinstance(b, (int, float)):
        return a == b
    return to_z3(a) == to_z3(b)


def describe(inputs, ntx):
    """script signature used in finding keys: the kinds per transmission (delays are in the replay file)"""
    ks = [TR.KINDS[inputs.get(f"k0_{i}", 0)] for i in range(max(ntx, 1))]
    return ">".join(ks)


CLASS = {"duplicate": "answer", "short_garbage": "garbage", "bad_checksum": "garbage", "sym_garbage": "garbage",
         "lone_fragment": "fragment", "two_fragments": "fragment", "dup_fragment": "fragment", "dup_exception": "exception"}


def describe_budget(inputs, ntx, budget):
    ks = [TR.KINDS[inputs.get(f"k0_{i}", 0)] for i in range(max(min(ntx, budget), 1))]
    return ">".join(CLASS.get(k, k) for k in ks)


def describe_budget_raw(inputs, ntx, budget):
    """kinds of the transmissions inside the retry budget (what the peer did to the attempts that were allowed)"""
    return describe(inputs, min(ntx, budget))


CONFIGS_QUICK = [
    {"transport": "udp", "keep_alive": False, "T": 2, "retries": 1},
    {"transport": "udp", "keep_alive": True, "T": 2, "retries": 1},
    {"transport": "tcp", "keep_alive": False, "T": 2, "retries": 1},
    {"transport": "tcp", "keep_alive": True, "T": 2, "retries": 1},
    {"transport": "udp", "keep_alive": False, "T": 3, "retries": 0},
    {"transport": "tcp", "keep_alive": True, "T": 3, "retries": 0},
]
# single-request-only configurations (C04): the AA55 framing (ES runtime command over UDP) and a Modbus/TCP
# transaction counter that starts just below its 16-bit wrap
CONFIGS_C04_EXTRA = [
    {"transport": "aa55", "keep_alive": False, "T": 2, "retries": 1},
    {"transport": "tcp", "keep_alive": True, "T": 2, "retries": 1, "tx_start": 0xFFFE},
    {"transport": "udp", "keep_alive": False, "T": 1.5, "retries": 1},      # a timeout that is not a whole number of seconds
    {"transport": "tcp", "keep_alive": True, "T": 2.5, "retries": 1},
]
ALPHABET = ["drop", "answer", "short_garbage", "bad_checksum", "exception", "two_fragments", "lone_fragment", "duplicate",
            "peer_closes", "send_error", "sym_garbage", "dup_fragment", "dup_exception"]


ALPHABET_QUICK = ["drop", "answer", "short_garbage", "exception", "two_fragments", "peer_closes", "send_error", "dup_fragment",
                  "lone_fragment"]


ALPHABET_DEEP = ["drop", "answer", "exception", "lone_fragment", "peer_closes", "send_error"]


def tasks(tier, seed):
    cfgs = list(CONFIGS_QUICK) + CONFIGS_C04_EXTRA
    alphabet = ALPHABET if tier == "thorough" else ALPHABET_QUICK
    if tier == "thorough":
        for tr in ("udp", "tcp"):
            for ka in (False, True):
                cfgs.append({"transport": tr, "keep_alive": ka, "T": 2, "retries": 2})
        cfgs.append({"transport": "udp", "keep_alive": True, "T": 3, "retries": 1})
        cfgs.append({"transport": "tcp", "keep_alive": False, "T": 3, "retries": 1})
    ts = []
    for i, c in enumerate(cfgs):
        # split the alphabet of the first transmission over tasks (first-level path prefixes in parallel)
        if tier == "thorough":
            # depth 3 (retries=2) with a 6-kind alphabet, depth <= 2 with the full 13-kind alphabet
            alphabet = ALPHABET_DEEP if c["retries"] >= 2 else ALPHABET
        if c.get("tx_start") or isinstance(c["T"], float):
            alphabet = ["drop", "answer", "exception"]
        base_alphabet = alphabet
        for k0 in alphabet:
            if c["retries"] >= 1:
                # heavy first kinds: also pin the kind of the second transmission (more, smaller tasks)
                for k1 in alphabet:
                    ts.append({"name": f"req-{i}-{k0}-{k1}", "scen": c, "first": k0, "second": k1, "connect_faults": False,
                               "alphabet": alphabet})
            else:
                ts.append({"name": f"req-{i}-{k0}", "scen": c, "first": k0, "connect_faults": False, "alphabet": alphabet})
        if c["transport"] == "tcp":
            for conn0 in range(len(TR.CONNECT)):
                ts.append({"name": f"req-{i}-connect{conn0}", "scen": c, "first": None, "connect_faults": True,
                           "conn0": conn0, "alphabet": alphabet})
    return ts


def run_task(task):
    kinds = task["alphabet"] if not task["connect_faults"] else ["drop", "answer", "peer_closes"]
    if task["first"] is not None:
        h = PinnedFirst(task["scen"], kinds, task["first"], task.get("second"))
    else:
        h = PinnedConnect(task["scen"], kinds, task["conn0"])
    return {"harnesses": [explore(h, max_paths=60000, max_seconds=1500, witnesses_per_outcome=2)]}


class PinnedConnect(OneRequest):
    """connect faults with the outcome of the first connection attempt pinned (parallel decomposition)"""

    def __init__(self, scen, kinds, conn0):
        super().__init__(scen, kinds, True)
        self.conn0 = conn0
        self.params["conn0"] = conn0

    def symbolic(self, ex):
        G = shimmed()
        G.modbus._modbus_checksum = TR.hybrid_crc(G.orig_checksum)
        script = TR.SymScript(self.kinds, self.scenario().T)
        script.cache["p_conn0"] = self.conn0
        self._k = lambda i: script.cache.get(f"k0_{i}", 0)
        obs = self._run(G, script)

        def check(c, label, detail=""):
            if c is True:
                return
            if c is False:
                ex.fail(label, detail)
            ex.check(c, label, detail)
        self.verdict(obs, check, ex.fail)
        return obs.outcome.split(":")[0] + f"/{len(obs.tx)}tx"

    def concrete(self, inputs):
        inputs = dict(inputs)
        inputs["p_conn0"] = self.conn0
        return super().concrete(inputs)


class PinnedFirst(OneRequest):
    def __init__(self, scen, kinds, first, second=None):
        super().__init__(scen, kinds, False)
        self.first, self.second = first, second
        self.params["first"] = first
        self.params["second"] = second

    def symbolic(self, ex):
        G = shimmed()
        G.modbus._modbus_checksum = TR.hybrid_crc(G.orig_checksum)
        script = TR.SymScript(self.kinds, self.scenario().T)
        script.cache["k0_0"] = TR.K[self.first]
        if self.second is not None:
            script.cache["k0_1"] = TR.K[self.second]
        self._k = lambda i: script.cache.get(f"k0_{i}", 0)
        obs = self._run(G, script)

        def check(c, label, detail=""):
            if c is True:
                return
            if c is False:
                ex.fail(label, detail)
            ex.check(c, label, detail)
        self.verdict(obs, check, ex.fail)
        return obs.outcome.split(":")[0] + f"/{len(obs.tx)}tx"

    def concrete(self, inputs):
        inputs = dict(inputs)
        inputs["k0_0"] = TR.K[self.first]
        if self.second is not None:
            inputs["k0_1"] = TR.K[self.second]
        return super().concrete(inputs)


def replay(case):
    p = case["params"]
    if p.get("first") is not None:
        return PinnedFirst(p["scenario"], p["kinds"], p["first"], p.get("second")).concrete(case["inputs"])
    if p.get("conn0") is not None:
        return PinnedConnect(p["scenario"], p["kinds"], p["conn0"]).concrete(case["inputs"])
    return OneRequest(p["scenario"], p["kinds"], p["connect_faults"]).concrete(case["inputs"])


def evidence_meta(tier):
    return {
        "level": "model_checking",
        "rule": "one state = one path of Inverter._read_from_socket(read command) on the real asyncio transports in the "
                "virtual world; per transmission the peer's kind is enumerated over the alphabet and its delays are "
                "symbolic integers, ordered against the library's timers by the solver inside the real heap code",
        "bounds": {"transmissions": "retries+1 <= 2 (quick) / 3 (thorough), one request", "alphabet": ALPHABET, "alphabet_depth3": ALPHABET_DEEP,
                   "delays": "0..2T+1 ticks (symbolic)", "framings": "Modbus RTU/UDP, Modbus/TCP, AA55/UDP (ES runtime command)", "timeout_T": "2, 3 ticks; 1.5 and 2.5 with the alphabet drop/answer/exception (peer delays stay whole ticks)", "retries": "0, 1 (quick) / up to 2 (thorough)",
                   "tcp_connect": "ok after 0..2 ticks, refused, unreachable, never",
                   "hard_cap": "transmissions > retries+3 or virtual time beyond (retries+3)(T+6)+4T abort the path as a violation"},
        "outside": ["retries > 2", "more than two fragments", "kernel behaviour of real sockets", "exception typing details "
                    "(C09)"],
        "assumptions": ["environment stubbed below asyncio at the BSD socket contract (symx/vworld.py); tick clock with resolution 1/1000",
                        "CRC: real function on concrete frames, uninterpreted on symbolic garbage"],
    }
