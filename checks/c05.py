"""C05 — retry budget and timeout are per request and exactly as configured."""
from __future__ import annotations

import asyncio

import z3

from symx.core import sym_int, to_z3
from symx import vworld
from vf.common import Harness, shimmed, real, explore
from . import history as H, transport as TR
from .c04 import CONFIGS_QUICK, ALPHABET, ALPHABET_QUICK, _eqz

PROP = "C05"


class EntryPoint(Harness):
    """goodwe.connect(family) / goodwe.discover / goodwe.search_inverters against a silent peer with symbolic
    (timeout, retries): every probe must be transmitted retries+1 times, `timeout` apart (search: once, 1 s)."""

    name = "entry"

    def __init__(self, entry, family=None):
        self.entry, self.family = entry, family
        self.params = {"entry": entry, "family": family}

    def _run(self, M, T, R):
        world = vworld.World(max_time=400, max_transmissions=80, max_connects=40)
        obs = TR.Obs()
        with world:
            loop = world.new_loop()
            world.peer_send = lambda sock, data, n: 0        # silent peer
            if self.entry == "discover" and self.family:
                # the AA55 discovery probe is answered by an inverter of the given family, everything else is lost
                from .models import es_info_bytes
                serial = {"ET": "9010KETU218W0001", "ES": "95048ESU218W0001", "DT": "9010KDTU218W0001"}[self.family]
                info = es_info_bytes(serial)
                head = bytes([0xAA, 0x55, 0x7F, 0xC0, 0x01, 0x82, len(info)]) + info
                frame = head + sum(head).to_bytes(2, "big")

                def peer(sock, data, n):
                    if bytes(data)[:7] == bytes.fromhex("aa55c07f010200"):
                        loop.call_later(0, lambda: sock.rx.append(frame))
                    return 0
                world.peer_send = peer
            exc = None
            try:
                inv = None
                if self.entry == "connect":
                    inv = vworld.run(loop, M.pkg.connect("10.0.0.1", 8899, self.family, 0, T, R))
                elif self.entry == "discover":
                    inv = vworld.run(loop, M.pkg.discover("10.0.0.1", 8899, T, R))
                else:
                    vworld.run(loop, M.pkg.search_inverters())
                if inv is not None:
                    # the object handed to the caller must carry the configured timeout/retries as well: one more
                    # (unanswered) request on it
                    world.peer_send = lambda sock, data, n: 0
                    try:
                        vworld.run(loop, inv.read_runtime_data())
                    except M.exceptions.InverterError:
                        pass
            except (vworld.Hang, vworld.LiveLock) as e:
                exc = e
            except BaseException as e:  # noqa: BLE001
                exc = e
            obs.exc = exc
            obs.tx = [(t, bytes(d)) for (t, d, fd) in world.transmissions]
            obs.t_end = world.now
        return obs

    def groups(self, obs):
        """consecutive identical transmissions = one probe"""
        out = []
        for t, d in obs.tx:
            if out and out[-1][0] == d:
                out[-1][1].append(t)
            else:
                out.append((d, [t]))
        return out

    def verdict(self, obs, T, R, check, fail):
        if isinstance(obs.exc, (vworld.Hang, vworld.LiveLock)):
            fail("entry point did not terminate against a silent peer", repr(obs.exc))
        if not obs.tx:
            fail("entry point transmitted nothing")
        if self.entry == "search":
            T, R = 1, 0
        groups = self.groups(obs)
        if self.entry == "discover" and self.family:
            groups = [g for g in groups if not g[0].startswith(bytes.fromhex("aa55c07f010200"))]   # the answered probe
            if not groups and self.family != "ES":   # ES device info is the (answered) discovery command itself
                fail("discover did not continue with the detected family")
        for d, times in groups:
            # the same probe may be issued again by a later detection round (discover falls back to probing every
            # family): a run of identical transmissions must consist of whole probes of retries+1 transmissions
            if len(times) % (R + 1) != 0 or (self.entry == "connect" and len(times) != R + 1):
                # connect(family=...) issues every probe once: exactly retries+1 transmissions
                fail("a probe was not transmitted retries+1 times", f"{d.hex()}: {len(times)} transmissions, retries={R}")
            for c0 in range(0, len(times), R + 1):
                chunk = times[c0:c0 + R + 1]
                for a, b in zip(chunk, chunk[1:]):
                    check(_eqz(b - a, T), "retransmissions of a probe are not `timeout` apart", f"{d.hex()}: {times}")

    def symbolic(self, ex):
        G = shimmed()
        G.modbus._modbus_checksum = G.orig_checksum
        T = int(sym_int("timeout", 1, 3))
        R = int(sym_int("retries", 0, 2))
        obs = self._run(G, T, R)

        def check(c, label, detail=""):
            if c is True:
                return
            if c is False:
                ex.fail(label, detail)
            ex.check(c, label, detail)
        self.verdict(obs, T, R, check, ex.fail)
        return f"{len(self.groups(obs))} probes"

    def concrete(self, inputs):
        R_ = real()
        T, R = inputs.get("timeout", 1), inputs.get("retries", 0)
        obs = self._run(R_, T, R)
        viol = []

        class Stop(Exception):
            pass

        def fail(label, detail=""):
            viol.append((label, detail))
            raise Stop()

        def check(c, label, detail=""):
            if c is not True and (c is False or not bool(c)):
                fail(label, detail)
        try:
            self.verdict(obs, T, R, check, fail)
        except Stop:
            pass
        tag = self.entry + (f"({self.family})" if self.family else "")
        return {"outcome": f"{len(self.groups(obs))} probes", "violation": f"{tag}: {viol[0][0]}" if viol else None,
                "observed": f"timeout={T} retries={R} probes={[(d.hex()[:24], ts) for d, ts in self.groups(obs)][:6]} {viol[0][1] if viol else ''}"}


PLANS = [["silent"], ["newloop", "silent"]]


def tasks(tier, seed):
    alphabet = ALPHABET if tier == "thorough" else [k for k in ALPHABET_QUICK if k != "dup_fragment"]
    cfgs = [c for c in CONFIGS_QUICK if c["retries"] >= 1]
    plans = PLANS[:1]
    ts = H.make_tasks(PROP, cfgs, alphabet, plans)
    if tier == "thorough":
        # full alphabet x both plans on the four T=2 configurations; T=3 and the event-loop change elsewhere with the
        # quick alphabet (sized so that the whole tier stays within minutes)
        q = [k for k in ALPHABET_QUICK if k != "dup_fragment"]
        ts += H.make_tasks(PROP, cfgs, q, PLANS[1:])
        ts += H.make_tasks(PROP, [{"transport": "udp", "keep_alive": True, "T": 3, "retries": 1},
                                  {"transport": "tcp", "keep_alive": False, "T": 3, "retries": 1}], q, PLANS[:1])
    if tier == "quick":
        # the most expensive pair (two fragmented answers in a row: four symbolic delays) is left to the thorough tier
        ts = [t for t in ts if not (t["first"] == "two_fragments" and t["second"] == "two_fragments")]
        # the event-loop change in the quick tier: only with the light first kinds
        ts += [t for t in H.make_tasks(PROP, cfgs, ["drop", "answer", "peer_closes", "send_error"], PLANS[1:])]
    # timeouts that are not a whole number of seconds (light alphabet)
    frac = [{"transport": "udp", "keep_alive": False, "T": 1.5, "retries": 1}, {"transport": "tcp", "keep_alive": True, "T": 2.5, "retries": 1}]
    ts += H.make_tasks(PROP, frac, ["drop", "answer", "exception"], PLANS[:1])
    ents = [("connect", "ET"), ("connect", "ES"), ("connect", "DT"), ("discover", None), ("search", None),
            ("discover", "ET"), ("discover", "ES"), ("discover", "DT")]
    ts += [{"name": f"entry-{e}-{f}", "entry": e, "family": f} for e, f in ents]
    return ts


def run_task(task):
    if "entry" in task:
        return {"harnesses": [explore(EntryPoint(task["entry"], task["family"]), max_paths=2000, max_seconds=600)]}
    return H.run_task(task)


def replay(case):
    if case["harness"] == "entry":
        return EntryPoint(case["params"]["entry"], case["params"]["family"]).concrete(case["inputs"])
    return H.replay(PROP, case)


def evidence_meta(tier):
    return {
        "level": "model_checking",
        "rule": "one state = one path of (request against a symbolic peer script; [event-loop change;] silent request) on "
                "one inverter object in the virtual world, or of an entry point against a silent peer with symbolic "
                "(timeout, retries)",
        "bounds": {"first_request": "C04 alphabet and delays, retries+1 <= 2 transmissions (quick: without dup_fragment and without the pair two_fragments>two_fragments)", "second_request": "silent peer",
                   "entry_points": "connect(ET/ES/DT), discover, search_inverters; timeout 1..3, retries 0..2",
                   "configs": "udp/tcp x keep-alive on/off x T=2 (quick) + T=3 (thorough); T=1.5 (udp) and 2.5 (tcp keep-alive) with the alphabet drop/answer/exception"},
        "outside": ["histories of more than two requests (the follow-up request starts from whatever state the first left: "
                    "every outcome class of the first request is explored)", "retries > 2"],
        "assumptions": ["environment model of symx/vworld.py"],
    }
