"""C14 — sensors are decoded only from registers that were actually fetched."""
from __future__ import annotations

from vf.common import shimmed, real, explore
from . import sensors as S

PROP = "C14"
MODE = "C14"


def tasks(tier, seed):
    R = real()
    cat = S.catalog(R, tier, settings=False, faults=True)
    errs = [e for e in cat if "error" in e]
    cat = [e for e in cat if "error" not in e and e["kind"] == "runtime"]
    n = 32 if tier == "quick" else 64
    ts = [{"name": f"sensors-{i}", "entries": cat[i::n]} for i in range(n) if cat[i::n]]
    if errs:
        ts.append({"name": "catalog-errors", "errors": errs[:5]})
    return ts


def run_task(task):
    if "errors" in task:
        raise RuntimeError(f"catalog discovery failed: {task['errors']}")
    G = shimmed()
    if not hasattr(G, "orig_sensor_fns"):
        G.orig_sensor_fns = (G.sensor.decode_day_of_week, G.sensor.decode_months)
        G.orig_bitmap = G.sensor.decode_bitmap
    G.sensor.decode_bitmap = lambda value, bitmap: "<bitmap>"
    out = []
    for ent in task["entries"]:
        out.append(explore(S.SensorHarness(MODE, ent), max_paths=20000, max_seconds=300, witnesses_per_outcome=1,
                           trace=len(out) < 3))
    return {"harnesses": out}


def replay(case):
    return S.SensorHarness(MODE, case["params"]).concrete(case["inputs"])


def evidence_meta(tier):
    return {
        "level": "model_checking",
        "rule": "one state = one path of a real sensor's read() over an exact-length symbolic answer to the live read "
                "command; every BytesIO read is logged and must return as many bytes as requested on every path",
        "bounds": {"configurations": "serial predicate classes x {3,10,15,25,30 kW} x refusal sets {none, ext2, ext2+ext, "
                                     "battery2, mppt, battery} (quick: one serial per class; thorough: every tag)",
                   "contents": "all bytes symbolic (shows read positions are content independent)",
                   "faults": "one lost request at each of the first 8 request positions of the first poll, for the "
                             "configurations with meter/battery fallbacks; tables of up to 4 consecutive polls"},
        "outside": ["ES (AA55 blocks have no register window)", "settings (one-sensor requests sized from size_: C16/C17)"],
        "assumptions": ["the (command, sensor table) association is taken from the real read_runtime_data() run against "
                        "the simulated inverter, after the capability fallbacks have settled",
                        "the solver's role is small here: the space is finite and the read positions do not depend on content"],
    }
