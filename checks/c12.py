"""C12 — each sensor value is the documented reading of exactly its own registers."""
from __future__ import annotations

from vf.common import shimmed, real, explore
from . import sensors as S

PROP = "C12"
MODE = "C12"


def tasks(tier, seed):
    R = real()
    cat = S.catalog(R, tier, settings=True)
    errs = [e for e in cat if "error" in e]
    cat = [e for e in cat if "error" not in e and (e["kind"] != "es_runtime" or True)]
    # ES short blocks are C11's subject; here only announced lengths that contain the whole field matter
    cat = [e for e in cat if not (e["kind"] == "es_runtime" and S.WIDTH.get(e["cls"]) is None)]
    # table level (real _map_response over the live table, surroundings that make other sensors undecodable)
    tabs = []
    by_block = {}
    for e in cat:
        if e["kind"] == "runtime" and S.WIDTH.get(e["cls"]) and e["cls"] not in ("EnumBitmap4",):
            by_block.setdefault((e["cfg"]["family"], e["first"], e["count"]), []).append(e)
    for key, es in sorted(by_block.items()):
        es.sort(key=lambda e: e["sensor"])
        # a table-level defect (a sensor's failure influencing the others) is independent of the sensor class:
        # the last sensor of each table, one in the middle and the first one, with two/three surroundings
        picks = {0, len(es) // 2, len(es) - 1} if tier == "quick" else set(range(0, len(es), 4)) | {len(es) - 1}
        for i in sorted(picks):
            for f in (("zero", "ff") if tier == "quick" else ("zero", "ff", "mix")):
                t = dict(es[i])
                t["table"] = f
                tabs.append(t)
    # the same settings through the public entry point (inv.read_setting on a fresh object): the glue between request,
    # response and decoder (read vs read_value, request window) is part of "its own registers"
    pubs = [dict(e, public=True) for e in cat if e["kind"] == "setting" and S.WIDTH.get(e["cls"])]
    cat = cat + tabs + pubs
    n = 48 if tier == "quick" else 120
    ts = [{"name": f"sensors-{i}", "entries": cat[i::n]} for i in range(n) if cat[i::n]]
    if errs:
        ts.append({"name": "catalog-errors", "errors": errs[:5]})
    return ts


def run_task(task):
    if "errors" in task:
        raise RuntimeError(f"catalog discovery failed: {task['errors']}")
    G = shimmed()
    if not hasattr(G, "orig_sensor_fns"):
        G.orig_sensor_fns = (G.sensor.decode_day_of_week, G.sensor.decode_months)
        G.orig_bitmap = G.sensor.decode_bitmap
    # cuts: the bit-string renderers are explored by C11 (totality) and C13 (labels); here they are total stubs
    G.sensor.decode_bitmap = lambda value, bitmap: "<bitmap>"
    G.sensor.decode_day_of_week = lambda d: "<days>"
    G.sensor.decode_months = lambda d: "<months>"
    out = []
    for ent in task["entries"]:
        out.append(explore(S.SensorHarness(MODE, ent), max_paths=20000, max_seconds=300, witnesses_per_outcome=1,
                           trace=len(out) < 3))
    return {"harnesses": out}


def replay(case):
    return S.SensorHarness(MODE, case["params"]).concrete(case["inputs"])


def evidence_meta(tier):
    return {
        "level": "model_checking",
        "rule": "one state = one path of a real sensor's read()/read_value() over a block whose every byte is symbolic; "
                "on each path z3 proves result == reference(own bytes) — valid for all contents of all other bytes, "
                "which is non-interference",
        "bounds": {"sensors": "every (read command, sensor) pair of the ET/DT runtime tables over the model configurations, "
                              "ES runtime table, all settings of ET/DT/ES (one-sensor requests / ES settings block)",
                   "contents": "every byte of the block fully symbolic (no sampling)",
                   "model_configs": "one serial per predicate class x 5 power classes x 6 refusal sets (quick); every tag (thorough)"},
        "outside": ["Calculated / EnumCalculated / bitmap label sensors (C13)",
                    "float rounding: int->float and /10^k are treated as exact rationals; IEEE specials are modelled",
                    "which 'no value' result a class gives for its all-ones sentinel is pinned by the reference table"],
        "assumptions": ["reference decoders are written from the class docstrings/units (checks/sensors.py:reference)",
                        "unpack('>f') on finite patterns and round(x, 3) are uninterpreted functions on both sides"],
    }
