"""Histories on one inverter object in the virtual world: a first request against a *symbolic* peer script (the C04
alphabet), followed by a concrete plan of further steps (silent request, answered request, close(), change of the
event loop).  One exploration, property-specific monitors (C05, C09, C10)."""
from __future__ import annotations

import asyncio
import gc

import z3

from symx.core import to_z3
from symx import vworld
from vf.common import Harness, shimmed, real, explore
from . import transport as TR
from .c04 import _ge, _eqz, CLASS

REG0 = 35100
REQ_STEPS = ("silent", "answer", "exception")     # plan steps that are requests (the others: close, newloop, drain)


class ComboScript:
    """request 0 follows the inner (symbolic or dict) script; later requests follow fixed behaviours"""

    def __init__(self, inner, behaviours):
        self.inner, self.beh = inner, behaviours     # behaviours: {req index: 'silent' | 'answer' | 'exception'}
        self.log = {}

    def kind(self, i, req=0):
        if req == 0:
            return self.inner.kind(i, 0)
        return TR.K[{"silent": "drop", "exception": "exception"}.get(self.beh.get(req), "answer")]

    def delay(self, i, which="d", req=0, hi=None):
        if req == 0:
            return self.inner.delay(i, which, 0, hi)
        return 0

    def small(self, name, lo, hi):
        self.log[name] = self.inner.small(name, lo, hi)
        return self.log[name]

    def value(self, name, lo, hi):
        return self.inner.value(name, lo, hi)

    def sym_bytes(self, name, n):
        return self.inner.sym_bytes(name, n)


def req_index(tcp):
    def f(data):
        reg = int.from_bytes(data[8:10] if tcp else data[2:4], "big")
        return (reg - REG0) // 10
    return f


class HistoryHarness(Harness):
    name = "history"

    def __init__(self, prop, scen, kinds, first, second, plan):
        self.prop, self.scen_params, self.kinds = prop, dict(scen), list(kinds)
        self.first, self.second, self.plan = first, second, list(plan)
        self.params = {"scenario": self.scen_params, "kinds": self.kinds, "first": first, "second": second, "plan": self.plan}

    def scenario(self):
        s = TR.Scenario(**{k: v for k, v in self.scen_params.items() if k != "tx_start"})
        if self.prop == "C08":
            s.exc_range = (1, 4)
        return s

    # -- run -------------------------------------------------------------------------------------------------
    def _run(self, M, script0):
        scen = self.scenario()
        T, R = scen.T, scen.retries
        nreq = 1 + sum(1 for s in self.plan if s in REQ_STEPS)
        beh, j = {}, 0
        for s in self.plan:
            if s in REQ_STEPS:
                j += 1
                beh[j] = s
        script = ComboScript(script0, beh)
        world = vworld.World(max_time=(nreq + 1) * (R + 3) * (T + 6) + 8 * T, max_transmissions=(R + 2) * nreq,
                             max_connects=(R + 2) * nreq + 2)
        obs = TR.Obs()
        obs.delivered, obs.reqs, obs.abort = [], [], None
        obs.two_open = []
        with world:
            loops = [world.new_loop()]
            inv = scen.make_inverter(M)
            if scen.tcp:
                # process-global Modbus/TCP transaction counter: optionally just below its 16-bit wrap
                M.protocol._modbus_tcp_tx = self.scen_params.get("tx_start", 0)
            rix = req_index(scen.tcp)
            send, conn = scen.peer(world, lambda: loops[-1], script, rix, obs.delivered)

            def transports():
                out = []
                for lp in loops:
                    if lp.is_closed():
                        continue
                    out += [t for t in list(lp._transports.values()) if not t.is_closing()]
                return out

            obs.recv_at_tx = []

            def on_send(sock, data, n):
                obs.recv_at_tx.append(world.recv_count)
                live = transports()
                if len(live) > 1:
                    obs.two_open.append((world.now, len(live)))
                return send(sock, data, n)
            world.peer_send, world.peer_connect = on_send, conn

            def begin(j):
                return {"j": j, "t0": world.now, "exc": None, "result": None, "abort": None, "tx0": len(world.transmissions),
                        "delivered_before": world.recv_count}

            def finish(r):
                j = r["j"]
                r["t_done"] = world.now
                r["tx"] = [x for x in world.transmissions if rix(bytes(x[1])) == j]
                first_ix = [i for i, x in enumerate(world.transmissions) if rix(bytes(x[1])) == j][:1]
                r["recv_at_first_tx"] = obs.recv_at_tx[first_ix[0]] if first_ix else None
                r["open"] = len(transports())
                r["fds"] = sorted({x[2] for x in r["tx"]})
                r["delivered_n"] = world.recv_count
                r["outcome"] = TR.classify(M, r["exc"]) if r["abort"] is None else r["abort"]
                r["count"] = getattr(r["exc"], "consecutive_failures_count", None)
                obs.reqs.append(r)

            current = [None]

            async def do_request(j):
                # awaited back to back inside ONE task, as a caller's coroutine does (callbacks that an earlier request
                # left in the loop's ready queue run while the next request is already under way)
                cmd = inv._read_command(REG0 + 10 * j, scen.count)
                r = current[0] = begin(j)
                try:
                    r["result"] = await inv._read_from_socket(cmd)
                except Exception as e:  # noqa: BLE001
                    r["exc"] = e
                except asyncio.CancelledError as e:
                    r["exc"] = e
                finish(r)
                current[0] = None
                if self.prop == "C05" and j == 0:
                    # C05 speaks about a *silent* follow-up request: peer events of the first request that are still in
                    # flight are dropped (confusing a late datagram with the next answer is C06/C07's subject)
                    scen.generation[0] += 1
                    for sk in list(world.sockets.values()):
                        sk.rx.clear()

            async def segment(steps, j0):
                j = j0
                for s in steps:
                    if s == "first":
                        await do_request(0)
                    elif s in REQ_STEPS:
                        j += 1
                        await do_request(j)
                    elif s == "peer_eof":
                        # the peer drops the connection while it is idle between two requests (stream: FIN; datagram:
                        # an ICMP port-unreachable for the kept-alive socket)
                        import errno as _errno
                        for sk in list(world.sockets.values()):
                            if not sk.closed and sk.connected:
                                sk.rx.append(("err", _errno.ECONNREFUSED) if sk.is_dgram else ("eof",))
                                if hasattr(scen, "delivered_count"):
                                    scen.delivered_count[0] += 1
                        await asyncio.sleep(1)
                        obs.steps.append(("open after peer_eof", len([t for t in transports()
                                                                        if not getattr(t, "_sock", None) or not t._sock.is_dgram])))
                    elif s == "close":
                        try:
                            await inv._protocol.close()
                        except Exception as e:  # noqa: BLE001
                            obs.steps.append(("close raised", type(e).__name__))
                        obs.steps.append(("open after close", len(transports())))

            scen.generation = [0]
            obs.steps = []
            # the plan is cut at 'newloop' steps: each piece runs as one coroutine on the loop current at that time
            pieces, cur_piece, closes = [], ["first"], []
            for s in self.plan:
                if s in ("newloop", "newloop_keep"):
                    pieces.append(cur_piece)
                    closes.append(s == "newloop")
                    cur_piece = []
                else:
                    cur_piece.append(s)
            pieces.append(cur_piece)
            ok, j0 = True, 0
            for pi, piece in enumerate(pieces):
                if pi > 0:
                    # successive asyncio.run() calls: the previous loop is closed, a new one is used from now on
                    # ('newloop_keep': the previous loop stays alive but idle, e.g. one long-lived loop per thread)
                    if closes[pi - 1]:
                        try:
                            loops[-1].close()
                        except BaseException as e:  # noqa: BLE001
                            obs.steps.append(("loop close raised", type(e).__name__))
                    loops.append(world.new_loop())
                try:
                    vworld.run(loops[-1], segment(piece, j0))
                except vworld.Hang:
                    ok = False
                    r = current[0] or begin(j0)
                    r["abort"] = "hang"
                    finish(r)
                except vworld.LiveLock as e:
                    ok = False
                    r = current[0] or begin(j0)
                    r["abort"] = "livelock: " + str(e)
                    finish(r)
                if not ok:
                    break
                j0 += sum(1 for s in piece if s in REQ_STEPS)
            obs.abort = None if ok else obs.reqs[-1]["abort"]
            obs.drain_abort = None
            if ok:
                try:
                    vworld.run(loops[-1], asyncio.sleep(3 * T + 4))
                except BaseException as e:  # noqa: BLE001
                    obs.drain_abort = type(e).__name__
            obs.unhandled = [u for lp in loops for u in lp.unhandled]
            obs.open_after_drain = len(transports())
            del inv
            gc.collect()
            obs.fds_open_after_drain = len(world.open_sockets()) if not any(x.startswith("newloop") for x in self.plan) else None
            obs.t_end = world.now
            obs.small = dict(script.log)
            obs.delivered_reqs = list(getattr(scen, "delivered_reqs", []))
        return obs

    # -- monitors ----------------------------------------------------------------------------------------------
    def verdict(self, obs, check, fail):
        scen = self.scenario()
        T, R = scen.T, scen.retries
        P = self.prop
        if obs.abort is not None:
            fail(f"request {len(obs.reqs) - 1} did not terminate ({obs.abort.split(':')[0]})", obs.abort)
        reqs = obs.reqs
        steps_req = ["scripted"] + [s for s in self.plan if s in REQ_STEPS]
        if P == "C08":
            # every request of the history that the peer answers with an exception frame (also right after an earlier
            # rejected request on the same object) fails at once, without retransmission, with the standard reason
            from .validators import MODBUS_REASONS
            reasons = dict(MODBUS_REASONS)
            for r, kind in zip(reqs, steps_req):
                if kind == "scripted":
                    ks = [self.first, self.second]
                    pos = 0 if self.first == "exception" else 1 if (self.first == "drop" and self.second == "exception") else None
                else:
                    pos = 0 if kind == "exception" else None
                if pos is None:
                    continue
                code = obs.small.get(f"exc{r['j']}_{pos}")
                if r["outcome"] != "rejected":
                    fail("exception answer did not surface as RequestRejectedException", f"request {r['j']}: {r['outcome']}")
                want = reasons.get(code, "UNKNOWN")
                if getattr(r["exc"], "message", None) != want:
                    fail("RequestRejectedException carries the wrong reason", f"request {r['j']} code={code}: {getattr(r['exc'], 'message', None)!r}")
                if len(r["tx"]) != pos + 1:
                    fail("a retransmission followed the exception answer (or an earlier one is missing)", f"request {r['j']}: {len(r['tx'])}")
                if r["j"] > 0:
                    check(_eqz(r["t_done"], r["tx"][-1][0]), "request did not fail at the arrival of the exception frame",
                          f"request {r['j']}: t_done={r['t_done']!r}")
            return
        if P == "C05":
            for r, kind in zip(reqs, steps_req):
                n = len(r["tx"])
                if n > R + 1:
                    fail(f"request {r['j']} ({kind}) was transmitted more than retries+1 times", str(n))
                if kind == "silent":
                    if not r["outcome"].startswith("failed"):
                        fail("silent request did not fail with RequestFailedException", r["outcome"])
                    if n != R + 1:
                        fail("silent request after an earlier request did not get the full retry budget", f"{n} transmissions")
                    t0 = r["tx"][0][0]
                    for i, (t, _, _) in enumerate(r["tx"]):
                        check(_eqz(t, t0 + i * T), "silent request: transmissions are not one timeout apart", f"tx {i} at {t!r}")
                    check(_eqz(r["t_done"], t0 + (R + 1) * T), "silent request: failure not reported one timeout after the last transmission")
        elif P == "C09":
            fails = 0
            for r in reqs:
                if not r["outcome"].startswith(("response", "rejected", "failed")):
                    fail("public call ended with an exception outside the InverterError family", r["outcome"])
                if r["outcome"].startswith("failed"):
                    fails += 1
                    if r["count"] != fails:
                        fail("consecutive_failures_count is wrong", f"request {r['j']}: {r['count']} != {fails}")
                elif r["outcome"].startswith("response"):
                    fails = 0
            if obs.unhandled:
                fail("exception left unhandled in an event-loop callback", str(obs.unhandled[0].get("exception"))[:160])
        elif P == "C10":
            if obs.two_open:
                fail("two open transports for one inverter object at the time of a transmission", str(obs.two_open[0]))
            for r in reqs:
                if not scen.keep_alive and r["open"] != 0:
                    fail("keep-alive off: a transport is still open when the request has completed", f"request {r['j']}: {r['open']}")
                if r["open"] > 1:
                    fail("more than one open transport when the request has completed")
            for st in obs.steps:
                if st[0] == "open after close" and st[1] != 0:
                    fail("a transport is still open after close()")
                if st[0] in ("close raised",):
                    fail("close() raised", st[1])
                if st[0] == "open after peer_eof" and st[1] != 0:
                    fail("a connection dropped by the peer while idle is still held as an open transport", str(st[1]))
            for r, kind in zip(reqs, steps_req):
                if kind == "answer" and r["outcome"].startswith("response") and len(r["tx"]) != 1 and \
                        not any(q < r["j"] and k > r["delivered_before"] for (t, q, k) in obs.delivered_reqs):
                    fail("the request after an earlier outcome needed a retransmission against a peer that answers at once",
                         f"request {r['j']}: {len(r['tx'])} transmissions")
                # (a datagram of an earlier request that arrives while this one is under way cannot be told from its own
                # answer on these framings: C06/C07's subject, not connection management)
                if kind == "answer" and not r["outcome"].startswith("response"):
                    # stale = sent by the peer for an earlier request and not yet consumed when this request started
                    if any(q < r["j"] and k > r["delivered_before"] for (t, q, k) in obs.delivered_reqs):
                        continue
                    check(False,
                          "the request after an earlier outcome does not work against an answering peer", r["outcome"])
            if scen.keep_alive:
                for a, b, i in zip(reqs, reqs[1:], range(len(reqs))):
                    between = self._between(i)
                    # "consecutive successful requests": a was answered on its first transmission and nothing else
                    # was sent by the peer (a stray exception frame or ICMP error legitimately closes the socket)
                    quiet = len(a["tx"]) == 1 and (steps_req[i] == "answer" or self.first == "answer")
                    if a["outcome"].startswith("response") and b["outcome"].startswith("response") and not between and quiet \
                            and a["fds"] and b["fds"] and a["fds"][-1] != b["fds"][0]:
                        fail("keep-alive on: consecutive successful requests did not reuse the transport", f"{a['fds']} {b['fds']}")
            if obs.fds_open_after_drain not in (None, 0) and not scen.keep_alive:
                fail("a socket is leaked (still open after the loop drained)", str(obs.fds_open_after_drain))
            if obs.fds_open_after_drain not in (None, 0, 1) and scen.keep_alive:
                fail("more than the one kept-alive socket is open after the loop drained", str(obs.fds_open_after_drain))

    def _between(self, i):
        """steps between request i and request i+1 of the plan"""
        idx, out = 0, []
        for s in self.plan:
            if s in REQ_STEPS:
                idx += 1
                if idx > i + 1:
                    break
            elif idx == i:
                out.append(s)
        return out

    # -- harness API ---------------------------------------------------------------------------------------------
    def _mk_script(self, script):
        script.cache["k0_0"] = TR.K[self.first]
        if self.second is not None:
            script.cache["k0_1"] = TR.K[self.second]
        return script

    def symbolic(self, ex):
        G = shimmed()
        G.modbus._modbus_checksum = TR.hybrid_crc(G.orig_checksum)
        T = self.scenario().T
        # C08 speaks about exception frames that arrive before the timeout of their transmission
        script = self._mk_script(TR.SymScript(self.kinds, T, max_delay=T - 1 if self.prop == "C08" else None))
        obs = self._run(G, script)

        def check(c, label, detail=""):
            if c is True:
                return
            if c is False:
                ex.fail(label, detail)
            ex.check(c, label, detail)
        self.verdict(obs, check, ex.fail)
        return "/".join(r["outcome"].split(":")[0] + f"{len(r['tx'])}" for r in obs.reqs)

    def concrete(self, inputs):
        R = real()
        inputs = dict(inputs)
        inputs["k0_0"] = TR.K[self.first]
        if self.second is not None:
            inputs["k0_1"] = TR.K[self.second]
        obs = self._run(R, TR.DictScript(inputs, self.scenario().T))
        viol = []

        class Stop(Exception):
            pass

        def fail(label, detail=""):
            viol.append((label, detail))
            raise Stop()

        def check(c, label, detail=""):
            if c is True:
                return
            if c is False or not bool(c):
                fail(label, detail)
        try:
            self.verdict(obs, check, fail)
        except Stop:
            pass
        sp = self.scen_params
        ntx0 = len(obs.reqs[0]["tx"]) if obs.reqs else 1
        ks = [CLASS.get(TR.KINDS[inputs.get(f"k0_{i}", 0)], TR.KINDS[inputs.get(f"k0_{i}", 0)]) for i in range(max(min(ntx0, sp["retries"] + 1), 1))]
        key = None
        if viol:
            extra = ""
            if "send_error" in ks:
                import errno as _e
                extra = " " + _e.errorcode.get(TR.ERRNOS[inputs.get("p_errno0_0", 0)], "?") if ks[0] == "send_error" else ""
            key = f"{sp['transport']}{' keep-alive' if sp['keep_alive'] else ''}: {viol[0][0]} [{'>'.join(ks)}{extra} then {'+'.join(self.plan) or '-'}]"
        return {"outcome": "/".join(r["outcome"].split(":")[0] + f"{len(r['tx'])}" for r in obs.reqs), "violation": key,
                "observed": f"scenario={sp} plan={self.plan} script={ {k: v for k, v in sorted(inputs.items()) if not k.startswith('g_')} } "
                            f"requests={[(r['outcome'], [t for t, _, _ in r['tx']], r['t_done'], r['count']) for r in obs.reqs]} "
                            f"steps={obs.steps} unhandled={len(obs.unhandled)} {viol[0][1] if viol else ''}"}


def make_tasks(prop, cfgs, alphabet, plans, heavy=("two_fragments", "dup_fragment", "exception", "short_garbage", "lone_fragment",
                                                   "bad_checksum", "sym_garbage", "duplicate")):
    ts = []
    for i, c in enumerate(cfgs):
        for plan in plans:
            for k0 in alphabet:
                if c["retries"] >= 1:
                    for k1 in alphabet:
                        ts.append({"name": f"h-{i}-{'+'.join(plan)}-{k0}-{k1}", "prop": prop, "scen": c, "first": k0, "second": k1,
                                   "plan": plan, "alphabet": alphabet})
                else:
                    ts.append({"name": f"h-{i}-{'+'.join(plan)}-{k0}", "prop": prop, "scen": c, "first": k0, "second": None,
                               "plan": plan, "alphabet": alphabet})
    return ts


def run_task(task):
    h = HistoryHarness(task["prop"], task["scen"], task["alphabet"], task["first"], task["second"], task["plan"])
    return {"harnesses": [explore(h, max_paths=60000, max_seconds=1500, witnesses_per_outcome=1)]}


def replay(prop, case):
    p = case["params"]
    return HistoryHarness(prop, p["scenario"], p["kinds"], p["first"], p["second"], p["plan"]).concrete(case["inputs"])
