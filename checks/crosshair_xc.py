"""Second engine (engine diversity): CrossHair 0.0.110 on the Modbus/TCP validator kernel, the one kernel it concludes
on (DESIGN 0.6).  The contracts are generated against the source tree under test; 'Confirmed over all paths' is
recorded, anything else (not confirmed, counterexample, crash) makes this sub-check inconclusive — the verdict on the
property is symx's."""
from __future__ import annotations

import os
import subprocess
import sys
import time

from vf.common import VERIF, src_root

TEMPLATE = '''import sys
sys.path.insert(0, {src!r})
from goodwe.modbus import validate_modbus_tcp_response
from goodwe.exceptions import PartialResponseException, RequestRejectedException


def tcp_read_accept_implies_wellformed(data: bytes, count: int) -> bool:
    """
    pre: len(data) <= 12
    pre: 1 <= count <= 125
    post: (not _) or (len(data) >= 9 + 2 * count and data[7] == 3 and data[8] == 2 * count)
    """
    try:
        return validate_modbus_tcp_response(data, 3, 35100, count)
    except (PartialResponseException, RequestRejectedException):
        return False


def tcp_write_accept_implies_echo(data: bytes, reg: int, value: int) -> bool:
    """
    pre: len(data) <= 13
    pre: 0 <= reg <= 65535
    pre: -32768 <= value <= 32767
    post: (not _) or (len(data) >= 12 and data[7] == 6 and data[8] * 256 + data[9] == reg and data[10] * 256 + data[11] == value % 65536)
    """
    try:
        return validate_modbus_tcp_response(data, 6, reg, value)
    except (PartialResponseException, RequestRejectedException):
        return False
'''


def run(timeout_s=120):
    os.makedirs(os.path.join(VERIF, "scratch"), exist_ok=True)
    path = os.path.join(VERIF, "scratch", f"xh_c01_{os.getpid()}.py")
    with open(path, "w") as f:
        f.write(TEMPLATE.format(src=src_root()))
    t0 = time.perf_counter()
    ent = {"name": "second engine: CrossHair on validate_modbus_tcp_response (frames <= 12/13 bytes)", "queries": 0,
           "obligations": 2, "discharged": 0, "bounds": {"frame_bytes": "<= 12 (read) / <= 13 (write)", "engine": "crosshair-tool 0.0.110"}}
    try:
        p = subprocess.run([sys.executable, "-m", "crosshair", "check", "--report_all", "--per_condition_timeout",
                            str(timeout_s), path], capture_output=True, text=True, timeout=2 * timeout_s + 60)
        out = p.stdout + p.stderr
    except Exception as e:  # noqa: BLE001
        out = f"{type(e).__name__}: {e}"
    finally:
        try:
            os.unlink(path)
        except OSError:
            pass
    confirmed = out.count("Confirmed over all paths")
    ent["discharged"] = min(confirmed, 2)
    ent["solver_s"] = round(time.perf_counter() - t0, 2)
    ent["result"] = f"{confirmed}/2 confirmed over all paths"
    ent["sample"] = "CrossHair: accept => well-formed for validate_modbus_tcp_response, read and write commands"
    if confirmed < 2:
        lines = [ln for ln in out.splitlines() if "error" in ln or "Not confirmed" in ln or "Unable" in ln]
        ent["inconclusive"] = "CrossHair did not confirm: " + (lines[0][:200] if lines else out[-200:])
    return ent
