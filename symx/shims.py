"""Name rebinding inside the check process: the goodwe modules keep their source, but the *names* of C-level builtins
they use (int, bytes, bytearray, float, round, bin, io, unpack, datetime) are bound, in each goodwe module's globals,
to pure-Python equivalents that accept symbolic values.  On concrete arguments every shim delegates to the real
builtin, so concrete behaviour is unchanged (validated by ``vcheck selftest``)."""
from __future__ import annotations

import builtins
import datetime as _dt
import importlib
import logging
import struct as _struct
import sys

import z3

from .core import SInt, SBool, SReal, cur, concrete_of, Inconclusive, is_sym
from . import sbytes
from .sbytes import SBytes, SByteArray, SBytesIO

_real_int = builtins.int
_real_float = builtins.float
_real_bytes = builtins.bytes
_real_bytearray = builtins.bytearray
_real_round = builtins.round
_real_bin = builtins.bin


# -- int -------------------------------------------------------------------------------------------------------
class _IntMeta(type):
    def __instancecheck__(cls, obj):
        return isinstance(obj, (_real_int, SInt))

    def __call__(cls, x=0, *a, **kw):
        if hasattr(x, "__symx_int__"):
            return x.__symx_int__()
        if isinstance(x, SInt):
            return x
        if isinstance(x, SReal):
            return x.trunc()
        if isinstance(x, SBool):
            return SInt(z3.If(x.e, z3.IntVal(1), z3.IntVal(0)))
        return _real_int(x, *a, **kw)


class IntShim(metaclass=_IntMeta):
    @staticmethod
    def from_bytes(data, byteorder="big", *, signed=False):
        return sbytes.int_from_bytes(data, byteorder, signed=signed)

    @staticmethod
    def to_bytes(x, length=1, byteorder="big", *, signed=False):
        return sbytes.int_to_bytes(x, length, byteorder, signed=signed)


# -- bytes / bytearray ------------------------------------------------------------------------------------------
class _BytesMeta(type):
    def __instancecheck__(cls, obj):
        return isinstance(obj, (_real_bytes, SBytes))

    def __call__(cls, x=b"", *a, **kw):
        if isinstance(x, (SBytes, SByteArray)):
            r = SBytes(x.items)
            return r.concrete() if r.is_concrete() else r
        if isinstance(x, (list, tuple)) and any(is_sym(v) for v in x):
            r = SBytes([sbytes._check_byte(v) for v in x])
            return r.concrete() if r.is_concrete() else r
        return _real_bytes(x, *a, **kw)


class BytesShim(metaclass=_BytesMeta):
    @staticmethod
    def fromhex(s):
        return sbytes.fromhex(s)


class _ByteArrayMeta(type):
    def __instancecheck__(cls, obj):
        return isinstance(obj, (_real_bytearray, SByteArray))

    def __call__(cls, x=0, *a, **kw):
        return SByteArray(x)


class ByteArrayShim(metaclass=_ByteArrayMeta):
    pass


# -- float / round / bin ----------------------------------------------------------------------------------------
class _FloatMeta(type):
    def __instancecheck__(cls, obj):
        return isinstance(obj, (_real_float, SReal))

    def __call__(cls, x=0.0):
        if hasattr(x, "__symx_float__"):
            return x.__symx_float__()
        if isinstance(x, SReal):
            return x
        if isinstance(x, (SInt, SBool)):
            return SReal.of(x)
        return _real_float(x)


class FloatShim(metaclass=_FloatMeta):
    pass


_UF_ROUND0 = z3.Function("py_round0", z3.RealSort(), z3.IntSort())
_UF_ROUNDN = z3.Function("py_roundn", z3.RealSort(), z3.IntSort(), z3.RealSort())
_UF_F32 = z3.Function("ieee754_f32_of_u32", z3.IntSort(), z3.RealSort())


def round_shim(x, ndigits=None):
    if hasattr(x, "__symx_round__"):
        return x.__symx_round__(ndigits)
    if isinstance(x, SReal):
        c = concrete_of(x)
        if c is not None:
            return _real_round(_real_float(c)) if ndigits is None else _real_round(_real_float(c), ndigits)
        if ndigits is None:
            # exact round-half-to-even of the rational value (a Python float that is not exactly representable
            # may round a tie differently: stated in DESIGN as 'floats are exact rationals')
            f = z3.ToInt(x.e)
            frac = x.e - z3.ToReal(f)
            return SInt(z3.If(frac < z3.RealVal("1/2"), f, z3.If(frac > z3.RealVal("1/2"), f + 1,
                                                                z3.If(f % 2 == 0, f, f + 1))))
        return SReal(_UF_ROUNDN(x.e, z3.IntVal(ndigits)))
    if isinstance(x, SInt):
        if ndigits is None or ndigits >= 0:
            return x
        raise Inconclusive("round(int, negative ndigits) on a symbolic int")
    return _real_round(x) if ndigits is None else _real_round(x, ndigits)


def bin_shim(x):
    if isinstance(x, SInt):
        return _real_bin(cur().concretize(x.e))
    return _real_bin(x)


_INT_CODES = {"b": (1, True), "B": (1, False), "h": (2, True), "H": (2, False), "i": (4, True), "I": (4, False),
              "l": (4, True), "L": (4, False), "q": (8, True), "Q": (8, False)}


def unpack_shim(fmt, data):
    if not isinstance(data, (SBytes, SByteArray)) or SBytes.of(data).is_concrete():
        if isinstance(data, (SBytes, SByteArray)):
            data = SBytes.of(data).concrete()
        return _struct.unpack(fmt, data)
    data = SBytes.of(data)
    order, codes = "big", fmt
    if fmt[:1] in "><!=@":
        order = "little" if fmt[0] == "<" else "big"
        codes = fmt[1:]
        if fmt[0] in "=@":
            raise Inconclusive(f"unpack({fmt!r}): native byte order on symbolic bytes")
    if _struct.calcsize(fmt) != len(data):
        raise _struct.error(f"unpack requires a buffer of {_struct.calcsize(fmt)} bytes")
    out, pos = [], 0
    for c in codes:
        if c in _INT_CODES:
            n, signed = _INT_CODES[c]
            out.append(sbytes.int_from_bytes(data[pos:pos + n], order, signed=signed))
            pos += n
        elif c == "f":
            u = sbytes.int_from_bytes(data[pos:pos + 4], order, signed=False)
            pos += 4
            if not isinstance(u, SInt):
                out.append(_struct.unpack(">f", _real_int.to_bytes(u, 4, "big"))[0])
            elif SBool((u.e / (2 ** 23)) % 256 == 255):
                # IEEE-754 specials are real Python floats so that round()/int() behave (and raise) as in CPython
                if SBool(u.e % (2 ** 23) == 0):
                    out.append(_real_float("-inf") if SBool(u.e >= 2 ** 31) else _real_float("inf"))
                else:
                    out.append(_real_float("nan"))
            else:
                out.append(SReal(_UF_F32(u.e)))
        else:
            raise Inconclusive(f"unpack({fmt!r}) on symbolic bytes")
    return tuple(out)


# -- datetime ---------------------------------------------------------------------------------------------------
class SDateTime:
    """Result of datetime(...) with symbolic fields that passed the constructor's validity checks."""

    def __init__(self, year, month, day, hour, minute, second):
        self.year, self.month, self.day, self.hour, self.minute, self.second = year, month, day, hour, minute, second
        self.microsecond = 0

    def fields(self):
        return (self.year, self.month, self.day, self.hour, self.minute, self.second)

    def __repr__(self):
        return "SDateTime" + repr(self.fields())


def days_in_month_expr(year, month):
    leap = z3.And(year % 4 == 0, z3.Or(year % 100 != 0, year % 400 == 0))
    return z3.If(month == 2, z3.If(leap, 29, 28),
                 z3.If(z3.Or(month == 4, month == 6, month == 9, month == 11), 30, 31))


def datetime_valid_expr(year, month, day, hour, minute, second):
    return z3.And(year >= 1, year <= 9999, month >= 1, month <= 12, day >= 1,
                  day <= days_in_month_expr(year, month), hour >= 0, hour <= 23, minute >= 0, minute <= 59,
                  second >= 0, second <= 59)


class _DateTimeMeta(type):
    def __instancecheck__(cls, obj):
        return isinstance(obj, (_dt.datetime, SDateTime))

    def __call__(cls, year, month=None, day=None, hour=0, minute=0, second=0, microsecond=0, tzinfo=None, **kw):
        args = (year, month, day, hour, minute, second)
        if not any(is_sym(a) for a in args):
            return _dt.datetime(year, month, day, hour, minute, second, microsecond, tzinfo, **kw)
        from .core import to_z3
        z = [to_z3(a) for a in args]
        ok = SBool(datetime_valid_expr(*z))
        if not ok:
            raise ValueError("datetime field out of range")
        return SDateTime(*args)


class DateTimeShim(metaclass=_DateTimeMeta):
    now = staticmethod(_dt.datetime.now)
    fromisoformat = staticmethod(_dt.datetime.fromisoformat)
    min = _dt.datetime.min
    max = _dt.datetime.max


# -- io ---------------------------------------------------------------------------------------------------------
class _IoShim:
    BytesIO = SBytesIO


# -- dict whose lookups fork per distinct outcome -----------------------------------------------------------------
class SDict(dict):
    """Label table: a lookup with a symbolic key forks once per key that is feasible (plus 'absent')."""

    def _lookup(self, key):
        if isinstance(key, SInt):
            c = concrete_of(key)
            if c is not None:
                key = c
        if not isinstance(key, SInt):
            return (True, dict.__getitem__(self, key)) if dict.__contains__(self, key) else (False, None)
        for k in dict.keys(self):
            if isinstance(k, _real_int) and SBool(key.e == k):
                return True, dict.__getitem__(self, k)
        return False, None

    def get(self, key, default=None):
        found, v = self._lookup(key)
        return v if found else default

    def __getitem__(self, key):
        found, v = self._lookup(key)
        if not found:
            raise KeyError(key)
        return v

    def __contains__(self, key):
        return self._lookup(key)[0]


# -- installation -----------------------------------------------------------------------------------------------
GOODWE_MODULES = ("goodwe.modbus", "goodwe.protocol", "goodwe.inverter", "goodwe.sensor", "goodwe.et", "goodwe.es",
                  "goodwe.dt", "goodwe.model", "goodwe")

SHIM_NAMES = {
    "int": IntShim, "bytes": BytesShim, "bytearray": ByteArrayShim, "float": FloatShim, "round": round_shim,
    "bin": bin_shim,
}

_installed = False


def load_goodwe(src=None):
    """Import goodwe from the source tree under test (GOODWE_SRC, default /repo)."""
    import os
    src = src or os.environ.get("GOODWE_SRC", "/repo")
    if src not in sys.path:
        sys.path.insert(0, src)
    mods = {name: importlib.import_module(name) for name in GOODWE_MODULES}
    g = mods["goodwe"]
    if not os.path.realpath(g.__file__).startswith(os.path.realpath(src)):
        raise RuntimeError(f"goodwe imported from {g.__file__}, expected {src}")
    return mods


def install(src=None, wrap_dicts=True):
    """Install all shims into the goodwe modules (idempotent)."""
    global _installed
    mods = load_goodwe(src)
    if _installed:
        return mods
    logging.disable(logging.CRITICAL)
    for name, mod in mods.items():
        for n, obj in SHIM_NAMES.items():
            setattr(mod, n, obj)
    mods["goodwe.protocol"].io = _IoShim
    for name in ("goodwe.sensor", "goodwe.et", "goodwe.es", "goodwe.dt"):
        mods[name].unpack = unpack_shim
        mods[name].datetime = DateTimeShim
    if wrap_dicts:
        mb = mods["goodwe.modbus"]
        if isinstance(getattr(mb, "FAILURE_CODES", None), dict):
            mb.FAILURE_CODES = SDict(mb.FAILURE_CODES)
    _installed = True
    return mods


def wrap_sensor_labels(sensor):
    """Replace the label table of an Enum*/bitmap sensor object by an SDict (per object, reversible)."""
    lab = getattr(sensor, "_labels", None)
    if isinstance(lab, dict) and not isinstance(lab, SDict):
        sensor._labels = SDict(lab)
