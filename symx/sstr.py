"""bytes.decode on symbolic byte strings.

The result must be a real ``str`` (it is searched with ``in``, stripped, passed to int()), so symbolic bytes are
enumerated (SInt -> concrete by forking) — after the validity fork of the codec, which raises the *real*
UnicodeDecodeError exactly where CPython would."""
from __future__ import annotations

import z3

from .core import SInt, SBool, cur


def decode(sb, encoding="utf-8", errors="strict"):
    enc = encoding.lower().replace("_", "-")
    items = list(sb.items)
    if all(isinstance(b, int) for b in items):
        return bytes(items).decode(encoding, errors)
    if enc == "ascii" and errors == "strict":
        out = []
        for i, b in enumerate(items):
            if isinstance(b, SInt):
                if SBool(b.e >= 128):
                    v = cur().concretize(b.e)
                    raise UnicodeDecodeError("ascii", bytes([0 if isinstance(x, SInt) else x for x in items[:i]] + [v]),
                                             i, i + 1, "ordinal not in range(128)")
                b = cur().concretize(b.e)
            elif b >= 128:
                raise UnicodeDecodeError("ascii", bytes([0 if isinstance(x, SInt) else x for x in items]), i, i + 1,
                                         "ordinal not in range(128)")
            out.append(b)
        return bytes(out).decode("ascii")
    # any other codec: enumerate all symbolic bytes, then use the real codec
    conc = bytes(cur().concretize(b.e) if isinstance(b, SInt) else b for b in items)
    return conc.decode(encoding, errors)
