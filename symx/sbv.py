"""Fixed-width two's-complement integer proxy on z3 bit-vectors, for kernels made of shifts and masks
(decode_bitmap): comparisons return SBool and fork through the Explorer like SInt's."""
from __future__ import annotations

import z3

from .core import SBool, cur


class SBVInt:
    __slots__ = ("e", "w")

    def __init__(self, e, w=None):
        self.e = e
        self.w = w or e.size()

    def _lift(self, o):
        if isinstance(o, SBVInt):
            return o.e
        if isinstance(o, int):
            return z3.BitVecVal(o & ((1 << self.w) - 1), self.w)
        raise TypeError(type(o).__name__)

    def __and__(self, o):
        return SBVInt(self.e & self._lift(o))

    __rand__ = __and__

    def __or__(self, o):
        return SBVInt(self.e | self._lift(o))

    __ror__ = __or__

    def __xor__(self, o):
        return SBVInt(self.e ^ self._lift(o))

    __rxor__ = __xor__

    def __rshift__(self, k):
        return SBVInt(self.e >> self._lift(k))  # arithmetic, as Python's >> on a negative int

    def __lshift__(self, k):
        return SBVInt(self.e << self._lift(k))

    def __eq__(self, o):
        return SBool(self.e == self._lift(o))

    def __ne__(self, o):
        return SBool(self.e != self._lift(o))

    def __bool__(self):
        return cur().branch(self.e != 0)

    def __hash__(self):
        raise TypeError("unhashable SBVInt")

    def __repr__(self):
        return f"SBVInt({z3.simplify(self.e)})"
