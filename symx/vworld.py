"""Environment model below asyncio (DESIGN §0.3): in-memory BSD sockets, a selector that computes readiness from
their queues and advances a *virtual clock* when nothing is ready, and a selector event loop on top of them.

Real code in the loop: asyncio's BaseEventLoop._run_once, call_later/call_at/heapq ordering, Task/Future/Lock/wait_for,
create_datagram_endpoint, create_connection, sock_connect, _SelectorDatagramTransport, _SelectorSocketTransport —
and all of goodwe.protocol.  The clock and the delays of the scripted peer may be symbolic integers (ticks): the
ordering of peer events against the library's timers is then decided by the solver inside the real heap code.
"""
from __future__ import annotations

import asyncio
import asyncio.base_events
import asyncio.selector_events
import errno
import selectors
from fractions import Fraction
import socket as _real_socket

from .core import SInt, SBool, concrete_of


class Hang(BaseException):
    """select() with nothing ready and nothing scheduled while the caller is still pending"""


class LiveLock(BaseException):
    """hard cap on transmissions / virtual time exceeded"""


class FakeSocket:
    _next_fd = [1000]

    def __init__(self, world, family=_real_socket.AF_INET, type=_real_socket.SOCK_STREAM, proto=0, fileno=None):
        self.world = world
        self.family, self.type, self.proto = family, type, proto
        self.fd = FakeSocket._next_fd[0]
        FakeSocket._next_fd[0] += 1
        self.closed = False
        self.connected = False
        self.connecting = False
        self.peer = None
        self.rx = []          # queued incoming items: bytes-like | ('eof',) | ('err', errno)
        self.so_error = 0
        self.writable = False
        self.peer_gone = False    # stream: the peer's FIN has been read; later writes reach nobody
        self.sent = []
        world.sockets[self.fd] = self
        world.all_sockets[self.fd] = self
        world.events.append(("socket", world.now, self.fd, "dgram" if self.is_dgram else "stream"))

    @property
    def is_dgram(self):
        return self.type == _real_socket.SOCK_DGRAM

    # -- plumbing asyncio needs --------------------------------------------------------------------------------
    def fileno(self):
        return -1 if self.closed else self.fd

    def setblocking(self, flag):
        pass

    def gettimeout(self):
        return 0.0

    def setsockopt(self, *a):
        pass

    def getsockopt(self, level, opt, *a):
        if opt == _real_socket.SO_ERROR:
            e, self.so_error = self.so_error, 0
            return e
        return 0

    def getsockname(self):
        return ("127.0.0.1", 40000 + self.fd)

    def getpeername(self):
        if not self.connected:
            raise OSError(errno.ENOTCONN, "not connected")
        return self.peer

    def bind(self, addr):
        pass

    def shutdown(self, how):
        pass

    def detach(self):
        return self.fd

    # -- BSD contract ------------------------------------------------------------------------------------------
    def connect(self, addr):
        self.peer = addr
        if self.is_dgram:
            self.connected = True
            self.writable = True
            return
        self.connecting = True
        self.world.on_connect(self)
        raise BlockingIOError(errno.EINPROGRESS, "in progress")

    def _connect_result(self, err):
        self.connecting = False
        self.so_error = err
        self.connected = err == 0
        self.writable = True

    def send(self, data, flags=0):
        if self.closed:
            raise OSError(errno.EBADF, "closed")
        e = self.world.on_send(self, data)
        if e:
            raise OSError(e, f"scripted send error {e}")
        return len(data)

    def sendto(self, data, addr=None):
        return self.send(data)

    def _pop(self):
        if not self.rx:
            raise BlockingIOError(errno.EAGAIN, "would block")
        item = self.rx.pop(0)
        self.world.recv_count += 1
        if isinstance(item, tuple) and item[0] == "err":
            raise OSError(item[1], f"scripted receive error {item[1]}")
        if isinstance(item, tuple) and item[0] == "eof":
            self.peer_gone = True
            return b""
        return item

    def recv(self, n, flags=0):
        return self._pop()

    def recvfrom(self, n, flags=0):
        return self._pop(), self.peer

    def close(self):
        if not self.closed:
            self.closed = True
            self.world.events.append(("close", self.world.now, self.fd))
            self.world.sockets.pop(self.fd, None)

    def __enter__(self):
        return self

    def __exit__(self, *a):
        self.close()


class FakeSocketModule:
    """stands in for the `socket` module inside asyncio.base_events / asyncio.selector_events"""

    def __init__(self, world):
        self._world = world

    def socket(self, family=_real_socket.AF_INET, type=_real_socket.SOCK_STREAM, proto=0, fileno=None):
        return FakeSocket(self._world, family, type, proto, fileno)

    def getaddrinfo(self, *a, **kw):
        raise OSError("name resolution is outside the environment model (use IP literals)")

    def __getattr__(self, name):
        return getattr(_real_socket, name)


class FakeSelector(selectors._BaseSelectorImpl):
    def __init__(self, world):
        super().__init__()
        self.world = world

    def select(self, timeout=None):
        w = self.world
        ready = []
        for key in list(self.get_map().values()):
            s = w.all_sockets.get(key.fd)
            mask = 0
            if s is not None:
                if key.events & selectors.EVENT_READ and s.rx:
                    mask |= selectors.EVENT_READ
                if key.events & selectors.EVENT_WRITE and s.writable:
                    mask |= selectors.EVENT_WRITE
            if mask:
                ready.append((key, mask))
        if ready:
            return ready
        if timeout is None:
            raise Hang("nothing ready, nothing scheduled")
        tc = timeout if not isinstance(timeout, (SInt,)) else timeout
        if isinstance(tc, float):
            tc = int(tc) if tc == int(tc) else tc
        w.advance(tc)
        return []


class VLoop(asyncio.selector_events.BaseSelectorEventLoop):
    def __init__(self, world):
        self.world = world
        super().__init__(FakeSelector(world))
        # a timer fires when `when < now + resolution`: integer delays fire exactly at their tick, a fractional delay
        # (e.g. asyncio.sleep(0.1)) is not lumped into the current tick
        self._clock_resolution = Fraction(1, 1000)
        self.unhandled = []
        self.set_exception_handler(lambda loop, ctx: self.unhandled.append(ctx))

    def time(self):
        return self.world.now

    def _make_self_pipe(self):
        pass

    def _close_self_pipe(self):
        pass

    def _write_to_self(self):
        pass


class World:
    """One virtual network: sockets, clock, event log.  The peer's behaviour is supplied by the harness through
    on_send(sock, data) -> errno|0 and on_connect(sock)."""

    def __init__(self, max_time=None, max_transmissions=None, max_connects=None):
        self.max_connects = max_connects
        self.recv_count = 0
        self.now = 0
        self.sockets = {}
        self.all_sockets = {}
        self.events = []
        self.transmissions = []   # (time, data, fd)
        self.max_time = max_time
        self.max_transmissions = max_transmissions
        self.peer_send = None
        self.peer_connect = None
        self._saved = None
        self.loops = []

    # -- clock -------------------------------------------------------------------------------------------------
    def advance(self, dt):
        self.now = self.now + dt
        if self.max_time is not None:
            over = self.now > self.max_time
            if bool(over):
                raise LiveLock(f"virtual time exceeded {self.max_time}")

    # -- peer hooks --------------------------------------------------------------------------------------------
    def on_send(self, sock, data):
        self.transmissions.append((self.now, data, sock.fd))
        self.events.append(("tx", self.now, sock.fd, data))
        if self.max_transmissions is not None and len(self.transmissions) > self.max_transmissions:
            raise LiveLock(f"more than {self.max_transmissions} transmissions")
        if sock.peer_gone and not sock.is_dgram:
            return 0     # written into a connection the peer has closed: accepted by the kernel, answered by nobody
        if self.peer_send:
            return self.peer_send(sock, data, len(self.transmissions) - 1) or 0
        return 0

    def on_connect(self, sock):
        self.events.append(("connect", self.now, sock.fd))
        if self.max_connects is not None and sum(1 for e in self.events if e[0] == "connect") > self.max_connects:
            raise LiveLock(f"more than {self.max_connects} connection attempts")
        if self.peer_connect:
            self.peer_connect(sock)
        else:
            sock._connect_result(0)

    def open_sockets(self):
        return [s for s in self.sockets.values() if not s.closed]

    # -- lifecycle ---------------------------------------------------------------------------------------------
    def __enter__(self):
        mod = FakeSocketModule(self)
        self._saved = (asyncio.base_events.socket, asyncio.selector_events.socket)
        asyncio.base_events.socket = mod
        asyncio.selector_events.socket = mod
        return self

    def new_loop(self):
        loop = VLoop(self)
        self.loops.append(loop)
        return loop

    def __exit__(self, *a):
        asyncio.base_events.socket, asyncio.selector_events.socket = self._saved
        for loop in self.loops:
            try:
                if not loop.is_closed():
                    loop.close()
            except BaseException:  # noqa: BLE001
                pass
        asyncio.events._set_running_loop(None)


def run(loop, coro):
    """run_until_complete that always leaves the running-loop marker clean (Hang/LiveLock unwind through it)"""
    try:
        return loop.run_until_complete(coro)
    finally:
        asyncio.events._set_running_loop(None)
