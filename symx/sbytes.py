"""Byte-string proxies and the pure-Python stand-ins for the C-level builtins a symbolic int cannot enter.

SBytes: immutable sequence of byte values with a *concrete* length; items are ``int`` or ``SInt`` (0..255).
Everything here mirrors the observable behaviour of the real builtin for the operations goodwe uses, including the
exceptions (ValueError for a byte out of range, OverflowError in to_bytes, short reads of BytesIO ...).
"""
from __future__ import annotations

import builtins
import re

import z3

from .core import SInt, SBool, SReal, cur, concrete_of, to_z3, Inconclusive

_real_bytes = builtins.bytes
_real_bytearray = builtins.bytearray
_real_int = builtins.int

# ---------------------------------------------------------------------------------------------------------------
# hex tokens: a symbolic value rendered with a hex format spec becomes a token naming (value, digits)
# ---------------------------------------------------------------------------------------------------------------
_TOK_OPEN = "\ue000"
_TOK_CLOSE = "\ue001"
_tokens: list = []  # index -> (SInt value, number of hex digits)   [reset per path is unnecessary: append-only]
_TOK_RE = re.compile(_TOK_OPEN + r"(\d+)" + _TOK_CLOSE)


def _new_token(value: SInt, digits: int) -> str:
    _tokens.append((value, digits))
    return f"{_TOK_OPEN}{len(_tokens) - 1}{_TOK_CLOSE}"


def format_sint(x: SInt, spec: str) -> str:
    """str.format / f-string rendering of a symbolic int."""
    c = concrete_of(x)
    if c is not None:
        return format(c, spec)
    m = re.fullmatch(r"0(\d+)([xX])", spec or "")
    if m:
        w = _real_int(m.group(1))
        fits = SBool(z3.And(x.e >= 0, x.e < 16 ** w))
        if fits:
            return _new_token(x, w)
        # out of the field's range: Python would print a sign or extra digits.  Continue with one concrete witness
        # of this (already suspicious) region; the exploration of the region is then not exhaustive.
        ex = cur()
        v = ex.pick(x.e, f"hex field overflow '{spec}'")
        ex.path_notes.append(f"hex field overflow: value {v} rendered with '{spec}'")
        return format(v, spec)
    # decimal or other rendering (only used in log/exception messages): one opaque placeholder, no fork
    return f"<sym:{spec}>"


def _nibbles(s: str):
    """Split a hex string that may contain tokens into a list of nibbles (int or z3 term)."""
    out = []
    pos = 0
    for m in _TOK_RE.finditer(s):
        chunk = s[pos:m.start()]
        for ch in chunk:
            if ch in " \t\n\r\f\v":
                continue
            out.append(_real_int(ch, 16))  # raises ValueError like bytes.fromhex for a non-hex char
        value, digits = _tokens[_real_int(m.group(1))]
        for k in range(digits - 1, -1, -1):
            out.append(("sym", value, k))
        pos = m.end()
    for ch in s[pos:]:
        if ch in " \t\n\r\f\v":
            continue
        out.append(_real_int(ch, 16))
    return out


def fromhex(s: str):
    if _TOK_OPEN not in s:
        return _real_bytes.fromhex(s)
    try:
        nib = _nibbles(s)
    except ValueError:
        raise ValueError("non-hexadecimal number found in fromhex() arg")
    if len(nib) % 2:
        raise ValueError("non-hexadecimal number found in fromhex() arg")
    items = []
    for i in range(0, len(nib), 2):
        hi, lo = nib[i], nib[i + 1]
        if isinstance(hi, int) and isinstance(lo, int):
            items.append(hi * 16 + lo)
        elif (not isinstance(hi, int)) and (not isinstance(lo, int)) and hi[1] is lo[1] and hi[2] == lo[2] + 1 \
                and lo[2] % 2 == 0:
            v = hi[1]
            items.append(SInt((v.e / (16 ** lo[2])) % 256))
        else:
            def term(n):
                if isinstance(n, int):
                    return z3.IntVal(n)
                return (n[1].e / (16 ** n[2])) % 16
            items.append(SInt(term(hi) * 16 + term(lo)))
    return SBytes(items)


def hex_of(items) -> str:
    out = []
    for b in items:
        if isinstance(b, SInt):
            c = concrete_of(b)
            if c is None:
                out.append(_new_token(b, 2))
                continue
            b = c
        out.append("%02x" % b)
    return "".join(out)


# ---------------------------------------------------------------------------------------------------------------
# SBytes / SByteArray
# ---------------------------------------------------------------------------------------------------------------

def _norm_item(b):
    if isinstance(b, SInt):
        e = b.e
        if z3.is_int_value(e):
            return e.as_long()
        if e.num_args() > 0:
            c = concrete_of(b)
            return b if c is None else c
    return b


_SYM_CACHE: dict = {}


def _raw(items):
    r = SBytes.__new__(SBytes)
    r.items = tuple(items)
    return r


class SBytes:
    __slots__ = ("items",)

    def __init__(self, items=()):
        self.items = tuple(_norm_item(b) for b in items)

    # -- construction helpers ------------------------------------------------------------------------------
    @staticmethod
    def symbolic(name, n):
        """n fresh symbolic bytes named name[i]"""
        ex = cur()
        ent = _SYM_CACHE.get((name, n))
        if ent is None:
            vs = [z3.Int(f"{name}[{i}]") for i in range(n)]
            names = {f"{name}[{i}]": v for i, v in enumerate(vs)}
            cons = z3.And([z3.And(v >= 0, v <= 255) for v in vs]) if vs else None
            ent = _SYM_CACHE[(name, n)] = (names, cons, tuple(SInt(v) for v in vs))
        names, cons, sints = ent
        ex.inputs.update(names)
        if cons is not None:
            ex.assume(cons, presimplify=False)
        r = SBytes.__new__(SBytes)
        r.items = sints
        return r

    @staticmethod
    def of(x):
        if isinstance(x, SBytes):
            return x
        if isinstance(x, SByteArray):
            return _raw(x.items)
        if isinstance(x, (_real_bytes, _real_bytearray)):
            return SBytes(tuple(x))
        raise TypeError(type(x).__name__)

    def is_concrete(self):
        return all(isinstance(b, int) for b in self.items)

    def concrete(self):
        return _real_bytes(self.items)

    # -- sequence protocol ---------------------------------------------------------------------------------
    def __len__(self):
        return len(self.items)

    def __iter__(self):
        return iter(self.items)

    def __getitem__(self, i):
        if isinstance(i, slice):
            return _raw(self.items[_conc_slice(i)])
        return self.items[_conc_index(i)]

    def __add__(self, o):
        if isinstance(o, SBytes):
            return _raw(self.items + o.items)
        if isinstance(o, SByteArray):
            return SBytes(self.items + tuple(o.items))
        if isinstance(o, (_real_bytes, _real_bytearray)):
            return _raw(self.items + tuple(o))
        return NotImplemented

    def __radd__(self, o):
        if isinstance(o, (_real_bytes, _real_bytearray)):
            return _raw(tuple(o) + self.items)
        return NotImplemented

    def __bool__(self):
        return len(self.items) > 0

    def __eq__(self, o):
        if isinstance(o, (SBytes, SByteArray)):
            oi = tuple(o.items)
        elif isinstance(o, (_real_bytes, _real_bytearray)):
            oi = tuple(o)
        else:
            return False
        if len(oi) != len(self.items):
            return False
        conj = []
        for a, b in zip(self.items, oi):
            if isinstance(a, int) and isinstance(b, int):
                if a != b:
                    return False
            else:
                conj.append(to_z3(a) == to_z3(b))
        if not conj:
            return True
        return SBool(z3.And(conj) if len(conj) > 1 else conj[0])

    def __ne__(self, o):
        r = self.__eq__(o)
        if isinstance(r, bool):
            return not r
        return ~r

    def __hash__(self):
        return hash(_real_bytes(_real_int(cur().concretize(to_z3(b))) if isinstance(b, SInt) else b
                                for b in self.items))

    def __repr__(self):
        return "SBytes(" + ",".join("?" if isinstance(b, SInt) else "%02x" % b for b in self.items) + ")"

    def hex(self):
        return hex_of(self.items)

    def eq_expr(self, other):
        """z3 Bool: bytewise equality with another byte string of the same length (False if lengths differ)."""
        r = self.__eq__(other)
        if isinstance(r, bool):
            return z3.BoolVal(r)
        return r.e

    def decode(self, encoding="utf-8", errors="strict"):
        from . import sstr
        return sstr.decode(self, encoding, errors)

    def rstrip(self, *a):
        if self.is_concrete():
            return self.concrete().rstrip(*a)
        raise Inconclusive("rstrip on symbolic bytes")


class SByteArray:
    __slots__ = ("items",)

    def __init__(self, init=0):
        if isinstance(init, int):
            self.items = [0] * init
        elif isinstance(init, (SBytes, SByteArray)):
            self.items = list(init.items)
        else:
            self.items = list(_real_bytes(init))

    def __len__(self):
        return len(self.items)

    def __iter__(self):
        return iter(tuple(self.items))

    def __getitem__(self, i):
        if isinstance(i, slice):
            return SByteArray(SBytes(self.items[_conc_slice(i)]))
        return self.items[_conc_index(i)]

    def __setitem__(self, i, v):
        i = _conc_index(i)
        self.items[i] = _check_byte(v)

    def append(self, v):
        self.items.append(_check_byte(v))

    def extend(self, vs):
        if isinstance(vs, (SBytes, SByteArray)):
            self.items.extend(vs.items)
        else:
            self.items.extend(_check_byte(v) for v in vs)

    def __eq__(self, o):
        return SBytes(self.items).__eq__(o)

    def __add__(self, o):
        return SByteArray(SBytes(self.items) + o)

    def hex(self):
        return hex_of(self.items)

    def __repr__(self):
        return "SByteArray" + repr(SBytes(self.items))[6:]


def _check_byte(v):
    """bytearray item assignment: ValueError unless 0 <= v < 256, TypeError for non ints."""
    if isinstance(v, bool):
        return _real_int(v)
    if isinstance(v, int):
        if not 0 <= v <= 255:
            raise ValueError("byte must be in range(0, 256)")
        return v
    if isinstance(v, SInt):
        c = concrete_of(v)
        if c is not None:
            return _check_byte(c)
        if SBool(z3.And(v.e >= 0, v.e <= 255)):
            return v
        raise ValueError("byte must be in range(0, 256)")
    raise TypeError(f"'{type(v).__name__}' object cannot be interpreted as an integer")


def _conc_index(i):
    if isinstance(i, SInt):
        return cur().concretize(i.e)
    return i


def _conc_slice(s: slice):
    return slice(_conc_index(s.start) if s.start is not None else None,
                 _conc_index(s.stop) if s.stop is not None else None,
                 _conc_index(s.step) if s.step is not None else None)


# ---------------------------------------------------------------------------------------------------------------
# int.from_bytes / int.to_bytes
# ---------------------------------------------------------------------------------------------------------------

def int_from_bytes(data, byteorder="big", *, signed=False):
    if isinstance(data, (_real_bytes, _real_bytearray)):
        return _real_int.from_bytes(data, byteorder, signed=signed)
    if isinstance(data, (list, tuple)) and all(isinstance(b, int) for b in data):
        return _real_int.from_bytes(_real_bytes(data), byteorder, signed=signed)
    items = list(data.items if isinstance(data, (SBytes, SByteArray)) else data)
    if byteorder == "little":
        items = items[::-1]
    elif byteorder != "big":
        raise ValueError("byteorder must be either 'little' or 'big'")
    if all(isinstance(b, int) for b in items):
        return _real_int.from_bytes(_real_bytes(items), "big", signed=signed)
    n = len(items)
    acc = z3.IntVal(0)
    for b in items:
        acc = acc * 256 + to_z3(b)
    acc = z3.simplify(acc)
    if signed and n > 0:
        acc = z3.If(acc >= 2 ** (8 * n - 1), acc - 2 ** (8 * n), acc)
    return SInt(acc)


def int_to_bytes(x, length=1, byteorder="big", *, signed=False):
    if hasattr(x, "__symx_to_bytes__"):
        return x.__symx_to_bytes__(length, byteorder, signed)
    if isinstance(x, SInt):
        c = concrete_of(x)
        if c is not None:
            x = c
    if isinstance(x, bool):
        x = _real_int(x)
    if isinstance(x, int):
        return _real_int.to_bytes(x, length, byteorder, signed=signed)
    if not isinstance(x, SInt):
        raise TypeError(f"cannot convert '{type(x).__name__}' object to bytes")
    if byteorder not in ("big", "little"):
        raise ValueError("byteorder must be either 'little' or 'big'")
    bits = 8 * length
    if signed:
        ok = SBool(z3.And(x.e >= -(2 ** (bits - 1)), x.e < 2 ** (bits - 1)))
    else:
        nonneg = SBool(x.e >= 0)
        if not nonneg:
            raise OverflowError("can't convert negative int to unsigned")
        ok = SBool(x.e < 2 ** bits)
    if not ok:
        raise OverflowError("int too big to convert")
    u = x.e % (2 ** bits) if signed else x.e
    items = [SInt((u / (256 ** k)) % 256) for k in range(length - 1, -1, -1)]
    if byteorder == "little":
        items = items[::-1]
    return SBytes(items)


# ---------------------------------------------------------------------------------------------------------------
# BytesIO
# ---------------------------------------------------------------------------------------------------------------
READ_LOG = None  # when set to a list, every read is appended as (pos, requested, returned)


class SBytesIO:
    def __init__(self, initial=b""):
        if isinstance(initial, (SBytes, SByteArray)):
            self._buf = SBytes.of(initial)
        else:
            self._buf = SBytes(tuple(_real_bytes(initial)))
        self._pos = 0

    def seek(self, pos, whence=0):
        pos = _conc_index(pos)
        if whence == 0:
            if pos < 0:
                raise ValueError(f"negative seek value {pos}")
            self._pos = pos
        elif whence == 1:
            self._pos = max(0, self._pos + pos)
        elif whence == 2:
            self._pos = max(0, len(self._buf) + pos)
        else:
            raise ValueError("invalid whence")
        return self._pos

    def tell(self):
        return self._pos

    def read(self, size=-1):
        size = _conc_index(size) if size is not None else -1
        if size is None or size < 0:
            size = max(0, len(self._buf) - self._pos)
        chunk = self._buf[self._pos:self._pos + size]
        if READ_LOG is not None:
            READ_LOG.append((self._pos, size, len(chunk)))
        self._pos += len(chunk)
        if chunk.is_concrete():
            return chunk.concrete()
        return chunk

    def getvalue(self):
        return self._buf
