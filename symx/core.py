"""symx core: re-execution symbolic executor on z3 proxy values.

The code under test (the real goodwe functions) is executed with proxy objects (SInt, SBool, SReal, SBytes ...) in
place of ints/bools/floats/bytes.  Whenever the program needs a concrete truth value (``if``, ``and``, ``in`` ...)
``SBool.__bool__`` asks the solver which outcomes are feasible under the current path condition; if both are, one is
taken now and the other is queued for a later re-execution from the start with the recorded decision prefix
(depth-first; the code under test is deterministic given the decisions).

Every solver-decided branch is recorded in the decision list, also the one-sided ones, so that a prefix always lines
up with the same program points on re-execution.
"""
from __future__ import annotations

import time
from fractions import Fraction

import z3

__all__ = [
    "Explorer", "SInt", "SBool", "SReal", "cur", "sym_int", "sym_bool", "is_sym", "to_z3", "to_z3_bool",
    "PathDead", "Inconclusive", "Violation", "concrete_of",
]


class PathDead(BaseException):
    """Raised to unwind a path that turned out to be infeasible or was cut by a budget (never a verdict)."""


class Inconclusive(BaseException):
    """Raised when the engine cannot continue soundly on this path (unsupported operation, solver unknown)."""


class Violation(BaseException):
    """Raised by Explorer.fail()/check() to end the current path with a property violation."""

    def __init__(self, label, model_inputs, detail=""):
        super().__init__(label)
        self.label = label
        self.inputs = model_inputs
        self.detail = detail


_CUR: "Explorer | None" = None


def cur() -> "Explorer":
    if _CUR is None:
        raise RuntimeError("symbolic value used outside of an exploration")
    return _CUR


# ---------------------------------------------------------------------------------------------------------------
# Explorer
# ---------------------------------------------------------------------------------------------------------------

class Explorer:
    """Depth-first path explorer.

    run(fn): calls fn() once per feasible path.  fn creates its symbolic inputs through sym_int()/sym_bool() (names
    must be deterministic), runs the code under test and states obligations with check()/fail().
    """

    def __init__(self, max_paths=200000, max_seconds=None, query_timeout_ms=20000, name=""):
        self.name = name
        self.max_paths = max_paths
        self.max_seconds = max_seconds
        self.query_timeout_ms = query_timeout_ms
        # statistics
        self.paths = 0
        self.paths_dead = 0
        self.queries = 0
        self.solver_s = 0.0
        self.unknowns = 0
        self.obligations = 0
        self.discharged = 0
        self.incomplete = []  # reasons why the exploration is not exhaustive
        self.violations = []  # list of dict(label, inputs, detail)
        self.outcomes = {}  # histogram filled by harnesses through note()
        self.samples = []
        # per path state
        self.solver = None
        self.prefix = []
        self.decisions = []
        self.idx = 0
        self.model = None
        self.inputs = {}
        self.work = []
        self.t0 = None
        self.path_notes = []
        self._fresh = 0

    # -- per path -------------------------------------------------------------------------------------------
    def _begin(self, prefix, model):
        self.solver = z3.Solver()
        self.solver.set("timeout", self.query_timeout_ms)
        self.prefix = prefix
        self.decisions = []
        self.idx = 0
        self.model = model
        self.inputs = {}
        self.path_notes = []
        self.picks = []
        self._fresh = 0

    def fresh_name(self, base):
        self._fresh += 1
        return f"{base}!{self._fresh}"

    def _query(self, *assumptions):
        t = time.perf_counter()
        r = self.solver.check(*assumptions)
        self.solver_s += time.perf_counter() - t
        self.queries += 1
        if r == z3.unknown:
            self.unknowns += 1
        return r

    def _add(self, cond):
        self.solver.add(cond)

    def _model_says(self, cond):
        """Evaluate cond under the cached model (None if no model is cached)."""
        if self.model is None:
            return None
        try:
            v = self.model.eval(cond, model_completion=True)
        except z3.Z3Exception:
            return None
        if z3.is_true(v):
            return True
        if z3.is_false(v):
            return False
        return None

    def assume(self, cond, presimplify=True):
        """Add an assumption (input domain).  Must be placed before the code it constrains."""
        cond = to_z3_bool(cond)
        if presimplify:
            s = z3.simplify(cond)
            if z3.is_true(s):
                return
        self._add(cond)
        if self._model_says(cond) is not True:
            self.model = None

    def _ensure_model(self):
        if self.model is None:
            r = self._query()
            if r == z3.sat:
                self.model = self.solver.model()
            elif r == z3.unsat:
                self.paths_dead += 1
                raise PathDead("path condition unsatisfiable")
            else:
                self.incomplete.append("solver unknown on path condition")
                raise Inconclusive("solver unknown on path condition")
        return self.model

    def branch(self, cond) -> bool:
        """Decide a symbolic condition; fork if both outcomes are feasible."""
        s = z3.simplify(cond)
        if z3.is_true(s):
            return True
        if z3.is_false(s):
            return False
        if self.idx < len(self.prefix):
            ent = self.prefix[self.idx]
            if ent[0] != "b":
                raise RuntimeError("decision prefix misaligned (expected branch)")
            taken = ent[1]
            self.idx += 1
            self.decisions.append(ent)
            c = cond if taken else z3.Not(cond)
            self._add(c)
            if self.model is not None and self._model_says(c) is not True:
                self.model = None
            return taken
        # new decision
        ms = self._model_says(cond)
        if ms is None:
            self._ensure_model()
            ms = self._model_says(cond)
            if ms is None:
                ms = True if self._query(cond) == z3.sat else False
                if ms:
                    self.model = self.solver.model()
        # the side `ms` is feasible (witnessed by the model); ask for the other side
        other = z3.Not(cond) if ms else cond
        r = self._query(other)
        if r == z3.sat:
            alt_model = self.solver.model()
            self.work.append((self.decisions + [("b", not ms)], alt_model))
        elif r == z3.unknown:
            # treat as feasible (over-approximation); a spurious path cannot produce a replaying violation
            self.incomplete.append("solver unknown on a branch side (explored as feasible)")
            self.work.append((self.decisions + [("b", not ms)], None))
        self.decisions.append(("b", ms))
        self.idx += 1
        self._add(cond if ms else z3.Not(cond))
        return ms

    def concretize(self, expr) -> int:
        """Enumerate the values of an integer expression (slice bounds, dict keys, range())."""
        s = z3.simplify(expr)
        if z3.is_int_value(s):
            return s.as_long()
        while True:
            if self.idx < len(self.prefix):
                ent = self.prefix[self.idx]
                if ent[0] != "eq":
                    raise RuntimeError("decision prefix misaligned (expected enumeration)")
                _, v, taken = ent
                self.idx += 1
                self.decisions.append(ent)
                c = (expr == v) if taken else (expr != v)
                self._add(c)
                if self.model is not None and self._model_says(c) is not True:
                    self.model = None
                if taken:
                    return v
                continue
            m = self._ensure_model()
            v = m.eval(expr, model_completion=True)
            if not z3.is_int_value(v):
                self.incomplete.append("could not evaluate enumeration value")
                raise Inconclusive("cannot enumerate")
            v = v.as_long()
            r = self._query(expr != v)
            if r == z3.sat:
                self.work.append((self.decisions + [("eq", v, False)], self.solver.model()))
            elif r == z3.unknown:
                self.incomplete.append("solver unknown during enumeration (explored as feasible)")
                self.work.append((self.decisions + [("eq", v, False)], None))
            self.decisions.append(("eq", v, True))
            self.idx += 1
            self._add(expr == v)
            return v

    def pick(self, expr, why="") -> int:
        """Continue with ONE witness value of expr (no alternatives are queued).  The rest of the region is not
        explored: unless the path ends in a violation the exploration is flagged as not exhaustive."""
        s = z3.simplify(expr)
        if z3.is_int_value(s):
            return s.as_long()
        m = self._ensure_model()
        v = m.eval(expr, model_completion=True).as_long()
        self._add(expr == v)
        self.picks.append(why or str(expr))
        return v

    # -- obligations -----------------------------------------------------------------------------------------
    def model_inputs(self, model=None):
        m = model if model is not None else self._ensure_model()
        out = {}
        for name, var in self.inputs.items():
            v = m.eval(var, model_completion=True)
            if z3.is_int_value(v) or z3.is_bv_value(v):
                out[name] = v.as_long()
            elif z3.is_true(v):
                out[name] = True
            elif z3.is_false(v):
                out[name] = False
            elif z3.is_rational_value(v):
                out[name] = [v.numerator_as_long(), v.denominator_as_long()]
            else:
                out[name] = str(v)
        return out

    def check(self, cond, label, detail=""):
        """Obligation: cond must hold for every input that reaches this point on this path."""
        self.obligations += 1
        if isinstance(cond, bool):
            if cond:
                self.discharged += 1
                return
            self.fail(label, detail)
        c = to_z3_bool(cond)
        s = z3.simplify(c)
        if z3.is_true(s):
            self.discharged += 1
            return
        r = self._query(z3.Not(c))
        if r == z3.unsat:
            self.discharged += 1
            return
        if r == z3.unknown:
            self.incomplete.append(f"solver unknown on obligation {label}")
            raise Inconclusive(f"unknown: {label}")
        model = self.solver.model()
        # prefer a counterexample with non-degenerate inputs (all-zero models often make an uninterpreted function
        # agree by accident and then do not replay); purely a heuristic choice among the satisfying models
        ints = [v for v in self.inputs.values() if z3.is_int(v)]
        if ints:
            div = [v != 0 for v in ints] + [a != b for a, b in zip(ints, ints[1:])]
            self.solver.push()
            try:
                self.solver.add(z3.Not(c), *div)
                self.solver.set("timeout", 3000)
                if self._query() == z3.sat:
                    model = self.solver.model()
            finally:
                self.solver.set("timeout", self.query_timeout_ms)
                self.solver.pop()
        inputs = self.model_inputs(model)
        raise Violation(label, inputs, detail)

    def fail(self, label, detail=""):
        """The current path itself is a violation (e.g. an undocumented exception reached the caller)."""
        inputs = self.model_inputs()
        raise Violation(label, inputs, detail)

    def feasible(self, cond) -> bool:
        """Is cond satisfiable together with the current path condition? (no fork, no recording)"""
        c = to_z3_bool(cond)
        s = z3.simplify(c)
        if z3.is_true(s):
            return True
        if z3.is_false(s):
            return False
        r = self._query(c)
        if r == z3.unknown:
            self.incomplete.append("solver unknown on feasibility query")
            raise Inconclusive("unknown feasibility")
        return r == z3.sat

    def note(self, key):
        self.outcomes[key] = self.outcomes.get(key, 0) + 1

    def sample(self, obj, limit=6):
        if len(self.samples) < limit:
            self.samples.append(obj)

    # -- driver ----------------------------------------------------------------------------------------------
    def run(self, fn, stop_on_violation=False):
        global _CUR
        self.t0 = time.perf_counter()
        self.work = [([], None)]
        prev = _CUR
        _CUR = self
        try:
            while self.work:
                if self.paths >= self.max_paths:
                    self.incomplete.append(f"path budget {self.max_paths} exhausted")
                    break
                if self.max_seconds is not None and time.perf_counter() - self.t0 > self.max_seconds:
                    self.incomplete.append(f"time budget {self.max_seconds}s exhausted")
                    break
                prefix, model = self.work.pop()
                self._begin(prefix, model)
                self.paths += 1
                try:
                    ob0 = self.obligations
                    fn()
                    if self.obligations == ob0:
                        # harness without explicit check() on this path: reaching the end with an allowed outcome
                        # is the obligation (ex.fail() would have raised)
                        self.obligations += 1
                        self.discharged += 1
                    if self.picks:
                        self.incomplete.append("region explored through a single witness: " + self.picks[0][:80])
                except Violation as v:
                    self.violations.append({"label": v.label, "inputs": v.inputs, "detail": v.detail,
                                            "notes": list(self.path_notes)})
                    if stop_on_violation:
                        break
                except PathDead:
                    pass
                except Inconclusive as e:
                    self.incomplete.append(f"inconclusive path: {e}")
                if self.idx < len(self.prefix):
                    # the re-execution diverged from the recorded prefix: the code under test is not deterministic
                    self.incomplete.append("re-execution consumed fewer decisions than its prefix")
        finally:
            _CUR = prev
        self.wall_s = time.perf_counter() - self.t0
        return self

    @property
    def exhausted(self):
        return not self.incomplete and not self.work

    def stats(self):
        return {
            "name": self.name, "paths": self.paths, "queries": self.queries, "solver_s": round(self.solver_s, 3),
            "obligations": self.obligations, "discharged": self.discharged, "unknowns": self.unknowns,
            "violations": len(self.violations), "incomplete": sorted(set(self.incomplete))[:8],
            "outcomes": dict(self.outcomes), "wall_s": round(getattr(self, "wall_s", 0.0), 3),
            "exhausted": self.exhausted,
        }


# ---------------------------------------------------------------------------------------------------------------
# Proxies
# ---------------------------------------------------------------------------------------------------------------

def is_sym(x):
    return isinstance(x, (SInt, SBool, SReal))


def to_z3(x):
    """int | bool | SInt | SReal | Fraction | float-with-exact-value -> z3 arithmetic term."""
    if isinstance(x, SInt):
        return x.e
    if isinstance(x, SReal):
        return x.e
    if isinstance(x, SBool):
        return z3.If(x.e, z3.IntVal(1), z3.IntVal(0))
    if isinstance(x, bool):
        return z3.IntVal(1 if x else 0)
    if isinstance(x, int):
        return z3.IntVal(x)
    if isinstance(x, Fraction):
        return z3.RealVal(str(x))
    if isinstance(x, float):
        return z3.RealVal(str(Fraction(x)))
    raise TypeError(f"cannot convert {type(x).__name__} to z3")


def to_z3_bool(x):
    if isinstance(x, SBool):
        return x.e
    if isinstance(x, bool):
        return z3.BoolVal(x)
    if isinstance(x, z3.BoolRef):
        return x
    if isinstance(x, SInt):
        return x.e != 0
    raise TypeError(f"cannot convert {type(x).__name__} to z3 bool")


def _is_real(x):
    return isinstance(x, (SReal, float, Fraction))


def concrete_of(x):
    """Return a python value if the proxy is in fact a constant, else None."""
    if isinstance(x, (SInt, SReal)):
        s = z3.simplify(x.e)
        if z3.is_int_value(s):
            return s.as_long()
        if z3.is_rational_value(s):
            return Fraction(s.numerator_as_long(), s.denominator_as_long())
        return None
    if isinstance(x, SBool):
        s = z3.simplify(x.e)
        if z3.is_true(s):
            return True
        if z3.is_false(s):
            return False
        return None
    return x


class SBool:
    __slots__ = ("e",)

    def __init__(self, e):
        self.e = e

    def __bool__(self):
        return cur().branch(self.e)

    def __and__(self, o):
        return SBool(z3.And(self.e, to_z3_bool(o)))

    __rand__ = __and__

    def __or__(self, o):
        return SBool(z3.Or(self.e, to_z3_bool(o)))

    __ror__ = __or__

    def __invert__(self):
        return SBool(z3.Not(self.e))

    def __eq__(self, o):
        if isinstance(o, (SBool, bool)):
            return SBool(self.e == to_z3_bool(o))
        return SInt(to_z3(self)) == o

    def __ne__(self, o):
        r = self.__eq__(o)
        return SBool(z3.Not(r.e))

    def __hash__(self):
        return hash(bool(self))

    def __int__(self):
        return 1 if bool(self) else 0

    def __index__(self):
        return 1 if bool(self) else 0

    def __repr__(self):
        return f"SBool({z3.simplify(self.e)})"


def _pow2_exp(n):
    """n == 2**k -> k, else None"""
    if isinstance(n, int) and n > 0 and n & (n - 1) == 0:
        return n.bit_length() - 1
    return None


_UF_POW2 = z3.Function("pow2", z3.IntSort(), z3.IntSort())


class SInt:
    """Mathematical (unbounded) integer, as Python's int."""
    __slots__ = ("e",)

    def __init__(self, e):
        self.e = e

    # -- conversions ---------------------------------------------------------------------------------------
    def __bool__(self):
        return cur().branch(self.e != 0)

    def __index__(self):
        return cur().concretize(self.e)

    def __int__(self):
        return cur().concretize(self.e)

    def __hash__(self):
        return hash(cur().concretize(self.e))

    def __float__(self):
        # a real float cannot carry a symbolic value; the float() shim keeps it symbolic instead
        return float(cur().concretize(self.e))

    def __repr__(self):
        return f"SInt({z3.simplify(self.e)})"

    def __format__(self, spec):
        from . import sbytes
        return sbytes.format_sint(self, spec)

    def __str__(self):
        from . import sbytes
        return sbytes.format_sint(self, "d")

    def to_bytes(self, length=1, byteorder="big", *, signed=False):
        from . import sbytes
        return sbytes.int_to_bytes(self, length, byteorder, signed=signed)

    def bit_length(self):
        return int(self).bit_length()

    # -- arithmetic ----------------------------------------------------------------------------------------
    def _bin(self, o, f, rf=None):
        if _is_real(o):
            return f(SReal(z3.ToReal(self.e)), o)
        if isinstance(o, (int, SInt, SBool)):
            return SInt(f(self.e, to_z3(o)))
        return NotImplemented

    def __add__(self, o):
        if _is_real(o):
            return SReal(z3.ToReal(self.e)) + o
        if isinstance(o, (int, SInt, SBool)):
            return SInt(self.e + to_z3(o))
        return NotImplemented

    __radd__ = __add__

    def __sub__(self, o):
        if _is_real(o):
            return SReal(z3.ToReal(self.e)) - o
        if isinstance(o, (int, SInt, SBool)):
            return SInt(self.e - to_z3(o))
        return NotImplemented

    def __rsub__(self, o):
        if _is_real(o):
            return o - SReal(z3.ToReal(self.e)) if isinstance(o, SReal) else SReal(to_z3(o)) - SReal(z3.ToReal(self.e))
        if isinstance(o, (int, SInt, SBool)):
            return SInt(to_z3(o) - self.e)
        return NotImplemented

    def __mul__(self, o):
        if _is_real(o):
            return SReal(z3.ToReal(self.e)) * o
        if isinstance(o, (int, SInt, SBool)):
            return SInt(self.e * to_z3(o))
        return NotImplemented

    __rmul__ = __mul__

    def __neg__(self):
        return SInt(-self.e)

    def __pos__(self):
        return self

    def __abs__(self):
        return SInt(z3.If(self.e >= 0, self.e, -self.e))

    def __floordiv__(self, o):
        if isinstance(o, int) and o > 0:
            return SInt(self.e / o)  # z3 int division is floor for a positive divisor
        if isinstance(o, int) and o < 0:
            return SInt((-self.e) / (-o))
        if isinstance(o, SInt):
            oc = concrete_of(o)
            if oc is not None:
                return self // oc
        raise Inconclusive("floor division by a symbolic/zero divisor")

    def __rfloordiv__(self, o):
        raise Inconclusive("floor division by a symbolic divisor")

    def __mod__(self, o):
        if isinstance(o, int) and o > 0:
            return SInt(self.e % o)
        raise Inconclusive("modulo by a symbolic/non-positive divisor")

    def __truediv__(self, o):
        return SReal(z3.ToReal(self.e)) / o

    def __rtruediv__(self, o):
        return SReal(to_z3(o) if not isinstance(o, int) else z3.RealVal(o)) / SReal(z3.ToReal(self.e))

    def __lshift__(self, o):
        if isinstance(o, SInt):
            oc = concrete_of(o)
            if oc is None:
                # symbolic shift amount: 2**amount is an uninterpreted function (over-approximation; a model that
                # depends on its interpretation is decided by the concrete replay)
                return SInt(self.e * _UF_POW2(o.e))
            o = oc
        if isinstance(o, int) and o >= 0:
            return SInt(self.e * (1 << o))
        raise Inconclusive("unsupported shift")

    def __rlshift__(self, o):
        c = concrete_of(self)
        if c is not None:
            return o << c
        return SInt(to_z3(o) * _UF_POW2(self.e))

    def __rshift__(self, o):
        if isinstance(o, SInt):
            oc = concrete_of(o)
            if oc is None:
                oc = cur().concretize(o.e)
            o = oc
        if isinstance(o, int) and o >= 0:
            return SInt(self.e / (1 << o))
        raise Inconclusive("unsupported shift")

    def __rrshift__(self, o):
        k = cur().concretize(self.e)
        return o >> k

    def __and__(self, o):
        if isinstance(o, SInt):
            oc = concrete_of(o)
            if oc is None:
                raise Inconclusive("symbolic & symbolic")
            o = oc
        if isinstance(o, int):
            if o == 0:
                return 0
            k = _pow2_exp(o + 1)
            if k is not None:  # mask 2**k - 1
                return SInt(self.e % (1 << k))
            if o > 0:
                # general non-negative constant mask: sum of selected bits
                terms = []
                i = 0
                m = o
                while m:
                    if m & 1:
                        terms.append(((self.e / (1 << i)) % 2) * (1 << i))
                    m >>= 1
                    i += 1
                return SInt(z3.Sum(terms) if len(terms) > 1 else terms[0])
        raise Inconclusive("unsupported & operand")

    __rand__ = __and__

    def __or__(self, o):
        raise Inconclusive("bitwise | on a symbolic int")

    __ror__ = __or__

    def __xor__(self, o):
        raise Inconclusive("bitwise ^ on a symbolic int")

    __rxor__ = __xor__

    def __pow__(self, o):
        if isinstance(o, int) and 0 <= o <= 4:
            r = 1
            for _ in range(o):
                r = self * r
            return r
        raise Inconclusive("unsupported power")

    # -- comparisons ---------------------------------------------------------------------------------------
    def _cmp(self, o, f):
        if _is_real(o):
            return f(SReal(z3.ToReal(self.e)), o)
        if isinstance(o, (int, SInt, SBool)):
            return SBool(f(self.e, to_z3(o)))
        return NotImplemented

    def __eq__(self, o):
        if _is_real(o):
            return SReal(z3.ToReal(self.e)) == o
        if isinstance(o, (int, SInt, SBool)):
            return SBool(self.e == to_z3(o))
        return False

    def __ne__(self, o):
        if _is_real(o):
            return SReal(z3.ToReal(self.e)) != o
        if isinstance(o, (int, SInt, SBool)):
            return SBool(self.e != to_z3(o))
        return True

    def __lt__(self, o):
        return self._cmp(o, lambda a, b: a < b)

    def __le__(self, o):
        return self._cmp(o, lambda a, b: a <= b)

    def __gt__(self, o):
        return self._cmp(o, lambda a, b: a > b)

    def __ge__(self, o):
        return self._cmp(o, lambda a, b: a >= b)


class SReal:
    """Exact rational stand-in for a Python float that was produced from ints by conversion, +, -, * and / —
    rounding of the binary representation is NOT modelled here (see the K-FP lemma for the encode direction)."""
    __slots__ = ("e",)

    def __init__(self, e):
        if z3.is_int(e):
            e = z3.ToReal(e)
        self.e = e

    @staticmethod
    def of(x):
        if isinstance(x, SReal):
            return x
        if isinstance(x, SInt):
            return SReal(z3.ToReal(x.e))
        if isinstance(x, SBool):
            return SReal(z3.ToReal(to_z3(x)))
        if isinstance(x, bool):
            return SReal(z3.RealVal(int(x)))
        if isinstance(x, int):
            return SReal(z3.RealVal(x))
        if isinstance(x, float):
            if x != x or x in (float("inf"), float("-inf")):
                raise Inconclusive("non-finite float in symbolic arithmetic")
            return SReal(z3.RealVal(str(Fraction(x))))
        if isinstance(x, Fraction):
            return SReal(z3.RealVal(str(x)))
        raise TypeError(type(x).__name__)

    def __repr__(self):
        return f"SReal({z3.simplify(self.e)})"

    def __str__(self):
        return repr(self)

    def __bool__(self):
        return cur().branch(self.e != 0)

    def __hash__(self):
        raise Inconclusive("hash of a symbolic float")

    def __float__(self):
        raise Inconclusive("float() of a symbolic real outside the shim")

    def __add__(self, o):
        return SReal(self.e + SReal.of(o).e)

    __radd__ = __add__

    def __sub__(self, o):
        return SReal(self.e - SReal.of(o).e)

    def __rsub__(self, o):
        return SReal(SReal.of(o).e - self.e)

    def __mul__(self, o):
        return SReal(self.e * SReal.of(o).e)

    __rmul__ = __mul__

    def __truediv__(self, o):
        oc = o if isinstance(o, (int, float, Fraction)) else concrete_of(o)
        if oc is None:
            raise Inconclusive("division by a symbolic value")
        if oc == 0:
            raise ZeroDivisionError("float division by zero")
        return SReal(self.e / SReal.of(oc).e)

    def __rtruediv__(self, o):
        raise Inconclusive("division by a symbolic value")

    def __neg__(self):
        return SReal(-self.e)

    def __pos__(self):
        return self

    def __abs__(self):
        return SReal(z3.If(self.e >= 0, self.e, -self.e))

    def _cmp(self, o, f):
        try:
            return SBool(f(self.e, SReal.of(o).e))
        except TypeError:
            return NotImplemented

    def __eq__(self, o):
        if o is None:
            return False
        r = self._cmp(o, lambda a, b: a == b)
        return False if r is NotImplemented else r

    def __ne__(self, o):
        if o is None:
            return True
        r = self._cmp(o, lambda a, b: a != b)
        return True if r is NotImplemented else r

    def __lt__(self, o):
        return self._cmp(o, lambda a, b: a < b)

    def __le__(self, o):
        return self._cmp(o, lambda a, b: a <= b)

    def __gt__(self, o):
        return self._cmp(o, lambda a, b: a > b)

    def __ge__(self, o):
        return self._cmp(o, lambda a, b: a >= b)

    def trunc(self):
        """int(x): truncation toward zero."""
        return SInt(z3.If(self.e >= 0, z3.ToInt(self.e), -z3.ToInt(-self.e)))


# ---------------------------------------------------------------------------------------------------------------
# input constructors
# ---------------------------------------------------------------------------------------------------------------

def sym_int(name, lo=None, hi=None) -> SInt:
    ex = cur()
    v = z3.Int(name)
    ex.inputs[name] = v
    if lo is not None:
        ex.assume(v >= lo)
    if hi is not None:
        ex.assume(v <= hi)
    return SInt(v)


def sym_bool(name) -> SBool:
    ex = cur()
    v = z3.Bool(name)
    ex.inputs[name] = v
    return SBool(v)
