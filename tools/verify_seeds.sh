#!/bin/sh
# Confirm every seeded change in a scratch worktree of /repo's current HEAD:
#   patch applies, 115 tests pass with it, demo fails with it, demo passes without it.
WT=/tmp/wt/verify
git -C /repo worktree remove --force $WT 2>/dev/null
git -C /repo worktree add -q --detach $WT HEAD || exit 1
for d in ${SEED_ROOT:-/tmp/seed_out}/C*/[a-i]; do
  id=$(basename $(dirname $d)); x=$(basename $d)
  p=$d/patch.diff; [ -f $d/patch_ported.diff ] && p=$d/patch_ported.diff
  cd $WT && git checkout -q -- . 
  if ! git apply --check $p 2>/dev/null; then echo "$id/$x PATCH-DOES-NOT-APPLY"; continue; fi
  # demo on the unchanged tree
  demo="$d/demo.py"
  if grep -q "def test_\|import pytest\|unittest" $demo && grep -q '"demo_kind".*pytest\|pytest' $d/meta.json 2>/dev/null && ! grep -q "__main__" $demo; then
     run="/venv/bin/python -m pytest -q -p no:cacheprovider $demo"
  else
     run="/venv/bin/python $demo"
  fi
  PYTHONPATH=$WT timeout 120 $run >/tmp/seed_clean.log 2>&1; rc_clean=$?
  git apply $p
  timeout 300 /venv/bin/python -m pytest -q -p no:cacheprovider tests >/tmp/seed_tests.log 2>&1; rc_tests=$?
  PYTHONPATH=$WT timeout 120 $run >/tmp/seed_mut.log 2>&1; rc_mut=$?
  git checkout -q -- .
  echo "$id/$x patch=$(basename $p) clean_demo_rc=$rc_clean tests_rc=$rc_tests($(tail -1 /tmp/seed_tests.log | cut -c1-30)) mutant_demo_rc=$rc_mut"
done
cd /; git -C /repo worktree remove --force $WT
