#!/bin/sh
# tools/mutant_matrix.sh [tier] — run the owning check against every seeded change (applied to a scratch worktree of
# /repo, selected with GOODWE_SRC; /repo itself is not touched) and write seeded/RESULTS.md
T="${1:-quick}"
WT=/tmp/wt/matrix
rm -rf /tmp/wt/matrix_ev
git -C /repo worktree remove --force $WT 2>/dev/null
git -C /repo worktree add -q --detach $WT HEAD || exit 1
cd /verif
echo "| seeded change | property | check result ($T tier) | new violations |" > seeded/RESULTS.md.tmp
echo "|---|---|---|---|" >> seeded/RESULTS.md.tmp
for d in seeded/C*/; do
  n=$(basename $d); C=$(echo $n | cut -c1-3)
  if [ -n "$ONLY" ] && ! echo " $ONLY " | grep -q " $n "; then grep "^| $n " seeded/RESULTS.md >> seeded/RESULTS.md.tmp 2>/dev/null; continue; fi
  git -C $WT checkout -q -- . ; git -C $WT apply /verif/$d/patch.diff || { echo "| $n | $C | patch does not apply | |" >> seeded/RESULTS.md.tmp; continue; }
  VERIF_EVIDENCE_DIR=/tmp/wt/matrix_ev GOODWE_SRC=$WT ./vcheck $C --tier $T > /tmp/matrix_$n.log 2>&1; rc=$?
  nv=$(grep -o "new_violations=[0-9]*" /tmp/matrix_$n.log | tail -1 | cut -d= -f2)
  res="MISSED"; [ "$rc" = "1" ] && res="detected (exit 1)"; [ "$rc" = "2" ] && res="harness error (exit 2)"
  echo "| $n | $C | $res | $nv |" >> seeded/RESULTS.md.tmp
  echo "$n rc=$rc new=$nv"
done
mv seeded/RESULTS.md.tmp seeded/RESULTS.md
rm -rf /tmp/wt/matrix_ev
git -C /repo worktree remove --force $WT
