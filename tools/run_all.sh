#!/bin/sh
# tools/run_all.sh [tier] — run every claimed check sequentially, print the summary lines and exit codes
T="${1:-quick}"
cd "$(dirname "$0")/.." || exit 1
for i in ${ONLY:-01 02 03 04 05 06 07 08 09 10 11 12 13 14 15 16 17 18 19 20}; do
  s=$(date +%s)
  timeout ${TMO:-7200} ./vcheck C$i --tier $T > /tmp/run_C$i.log 2>&1; rc=$?
  e=$(date +%s)
  echo "C$i rc=$rc $((e-s))s $(grep '^\[C' /tmp/run_C$i.log | tail -1 | cut -c1-200)"
done
