#!/bin/sh
# tools/neutral_control.sh [tier] — every check against the behaviour-preserving refactoring seeded/_neutral/neutral1.diff
# (scratch worktree, /repo untouched); every line must say rc=0.
T="${1:-quick}"
cd "$(dirname "$0")/.." || exit 1
for i in ${ONLY:-01 02 03 04 05 06 07 08 09 10 11 12 13 14 15 16 17 18 19 20}; do
  out=$(LINES_OUT=1 tools/mutant_wt.sh "$(pwd)/seeded/_neutral/neutral1.diff" C$i $T 2>&1 | grep "^\[C" | tail -1 | cut -c1-160)
  nv=$(echo "$out" | grep -o "new_violations=[0-9]*" | cut -d= -f2)
  echo "C$i new_violations=${nv:-?} $out"
done
