#!/usr/bin/env python3
"""Regenerate /verif/MANIFEST.json from the table below (run after adding a check)."""
import json
import os

VERIF = os.path.dirname(os.path.dirname(os.path.abspath(__file__)))

TECH = "bounded symbolic execution of the real Python functions on z3 proxy values (symx), one solver-decided obligation per path; counterexamples replayed on the unmodified code"

CLAIMED = {
    "C01": dict(
        text="Bounded model checking by symbolic execution: the three real response validators (through the real command "
             "classes) are executed on a frame of n fully symbolic bytes with symbolic register/count/value; on every "
             "accepting path z3 proves the frame is a well-formed answer (function, byte count, length, echo, checksum), "
             "every other outcome must be one of refuse/partial/rejected. Bound: frame length (quick 0..24 and the full-frame "
             "neighbourhoods, thorough every length 0..264). CRC: uninterpreted in the harness, closed by lemma K-CRC "
             "(real table-driven function == bitwise CRC-16/MODBUS, bounded by message length plus an inductive step for all lengths). "
             "Transport half: with an answer arriving in two pieces (every split point, symbolic delays, exact/short/long/foreign/"
             "symbolic second piece; RTU, TCP, AA55) the bytes that execute() returns must be a well-formed answer to the request.",
        note="Trusted: z3, the int/bytes/bytearray/io name-rebinding shims (cross-validated per harness against concrete runs of the "
             "pristine code), the reference frame grammar. Outside: frames > 264 bytes; transport delivery is C04/C07.",
        ref="§1 C01", tech=TECH + "; QF_BV lemma for the CRC"),
    "C02": dict(
        text="Same encoding as C01 with the dual obligation: on every path that does not accept, z3 must refute 'frame is "
             "conforming' (strict grammar incl. checksum relation, any payload, any comm address, trailing bytes); on accepting "
             "paths ProtocolResponse.response_data() must equal the frame's payload bytes. All frame lengths up to 264 "
             "(thorough) so the AA55 checksum range (sum up to 0xFFFF) is covered. Transport scenarios in the virtual "
             "network: a complete conforming answer must succeed at once (a) after an earlier request left a fragment "
             "whose missing tail has this answer's length, (b) while another caller's request of another shape is queued.",
        note="Trusted as C01. The CRC is uninterpreted: 'conforming' means the trailer equals the stub result for the right slice.",
        ref="§1 C02", tech=TECH),
    "C03": dict(
        text="Symbolic execution of the real request builders (create_modbus_*_request via the command classes and via "
             "protocol.read_command/write_command/write_multi_command, Aa55* commands, the ES setter commands) with symbolic "
             "comm address/register/count/value/payload: every produced byte is proven equal to the canonical encoding; "
             "building never raises inside the stated domain. Transaction id: inductive step on the real _next_tx from an "
             "arbitrary state of the invariant 0..0xFFFE (covers histories of any length incl. the 16-bit wrap). History: "
             "another protocol object (any comm address) built the same command before. Wire view: one request against "
             "the scripted peer of C04 (losses, garbage, fragments, connection faults, counter near the wrap): every "
             "transmitted frame is decoded by an independent decoder, Modbus/TCP ids are non-zero and change per transmission.",
        note="Trusted: z3, shims (hex-format tokens, bytes.fromhex, int.to_bytes), reference encoder and the independent decoder used "
             "for replay. CRC as in C01. AA55 multi writes only for 8-byte groups.",
        ref="§1 C03", tech=TECH + "; inductive invariant for the transaction counter"),
}

REASONS_NA = {}


def main():
    props = [json.loads(l) for l in open(os.path.join(VERIF, "properties.jsonl"))]
    extra = {}
    p = os.path.join(VERIF, "tools", "manifest_extra.json")
    if os.path.exists(p):
        extra = json.load(open(p))
    claimed = dict(CLAIMED)
    for k, v in extra.get("claimed", {}).items():
        claimed[k] = v
    checks = []
    na = []
    for pr in props:
        i = pr["id"]
        if i in claimed:
            c = claimed[i]
            checks.append({
                "property_id": i,
                "quick_cmd": f"./vcheck {i} --tier quick",
                "thorough_cmd": f"./vcheck {i} --tier thorough",
                "evidence_file": f"evidence/{i}.json",
                "replay_cmd_template": "./vcheck replay {path}",
                "engine": "symx",
                "level_claimed": {"category": c.get("category", "model_checking"), "text": c["text"], "design_ref": c["ref"]},
                "level_note": c["note"],
                "technique": c["tech"],
            })
        else:
            na.append({"property_id": i, "reason": extra.get("na", {}).get(i, REASONS_NA.get(
                i, "check under construction in this round; not yet claimed"))})
    m = {
        "version": 1,
        "setup_cmd": "./setup.sh",
        "hooks": {"guard": "GOODWE_VERIF",
                  "enable": "no source hooks are needed: all instrumentation is name rebinding inside the check process "
                            "(symx/shims.py); GOODWE_SRC selects the source tree (default /repo)",
                  "baseline_off_cmd": "cd /repo && /venv/bin/python -m pytest -ra -q -p no:cacheprovider --timeout=900 "
                                      "--continue-on-collection-errors",
                  "source_commits": [], "add_only": True},
        "engines": [
            {"name": "symx", "path": "symx/", "serves_properties": sorted(claimed),
             "kind_free_text": "own re-execution symbolic executor for Python on z3 proxies (SInt/SBool/SReal/SBytes), "
                               "z3 5.1 as decision procedure; stand-alone QF_BV / QF_FP lemma queries"},
        ],
        "checks": checks,
        "not_applicable": na,
        "notes": "Genuine defects found by the checks and repaired in /repo with 'fix:' commits are listed in "
                 "known_findings.json (status fixed); recorded-not-repaired findings have status known and are printed as "
                 "KNOWN-FINDING lines. Exit code 2 is reserved for harness errors (never a verdict).",
    }
    json.dump(m, open(os.path.join(VERIF, "MANIFEST.json"), "w"), indent=1)
    print("claimed:", sorted(claimed), "na:", [x["property_id"] for x in na])


if __name__ == "__main__":
    main()
