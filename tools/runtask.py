#!/usr/bin/env python3
"""debug helper: tools/runtask.py C11 quick <task-name-substring> [n] — run matching tasks in-process, print stats"""
import importlib
import json
import sys
import time

sys.path.insert(0, '/verif')
prop, tier, pat = sys.argv[1], sys.argv[2], sys.argv[3]
mod = importlib.import_module(f"checks.{prop.lower()}")
t00 = time.time()
ts = [t for t in mod.tasks(tier, 0) if pat in t["name"]]
print(len(ts), "tasks; tasks() took", round(time.time() - t00, 1), "s")
for t in ts[: int(sys.argv[4]) if len(sys.argv) > 4 else 1]:
    t0 = time.time()
    r = mod.run_task(t)
    for h in r.get("harnesses", []):
        print(h["harness"], json.dumps(h["params"], default=str)[:150], "paths", h["paths"], "q", h["queries"], "wall",
              h["total_wall_s"], "out", h["outcomes"],
              "viol", [(v["label"], v.get("key"), str(v.get("observed", ""))[:100]) for v in h["violations_list"]][:2],
              "inc", h["incomplete"][:2], "mm", h["witness_mismatches"][:1])
    for l in r.get("lemmas", []):
        print("lemma", {k: l.get(k) for k in ("name", "result", "solver_s", "inconclusive")})
    print("task", t["name"], round(time.time() - t0, 1), "s")
