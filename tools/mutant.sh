#!/bin/sh
# tools/mutant.sh <patch.diff> <Cxx> [tier]  — apply a seeded change to /repo, run one check, always revert.
# The evidence file of the check is saved and restored (evidence must describe the unchanged tree).
P="$1"; C="$2"; T="${3:-quick}"
git -C /repo diff --quiet || { echo "/repo dirty"; exit 9; }
git -C /repo apply "$P" || { echo "patch does not apply"; exit 9; }
cd /verif
[ -f evidence/$C.json ] && cp evidence/$C.json /tmp/.evidence_$C.bak
./vcheck "$C" --tier "$T" 2>&1 | grep -v "^  key=" | cut -c1-400 | tail -${LINES_OUT:-6}
[ -f /tmp/.evidence_$C.bak ] && mv /tmp/.evidence_$C.bak evidence/$C.json
git -C /repo checkout -- .
git -C /repo diff --quiet && echo "[reverted]"
