#!/bin/sh
# tools/mutant_wt.sh <patch.diff> <Cxx> [tier] — run one check against a seeded change applied to a private scratch
# worktree of /repo (GOODWE_SRC); /repo and evidence/ are not touched, so several can run side by side.
P="$1"; C="$2"; T="${3:-quick}"
WT=/tmp/wt/m_$$
git -C /repo worktree add -q --detach $WT HEAD || exit 9
git -C $WT apply "$P" || { echo "patch does not apply"; git -C /repo worktree remove --force $WT; exit 9; }
cd /verif
VERIF_EVIDENCE_DIR=/tmp/wt/ev_$$ GOODWE_SRC=$WT ./vcheck "$C" --tier "$T" 2>&1 | grep -v "^  key=" | cut -c1-400 | tail -${LINES_OUT:-6}
rm -rf /tmp/wt/ev_$$
git -C /repo worktree remove --force $WT
