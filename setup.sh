#!/bin/sh
# Build the check environment offline: an overlay venv on the repository's own interpreter (/venv, python 3.12)
# with z3-solver and crosshair-tool from the local wheelhouse. Idempotent; safe to run concurrently (lock dir).
set -e
cd "$(dirname "$0")"
VENV="$PWD/.venv"
WHEELS=/opt/veriftools/wheels
if [ -x "$VENV/bin/python" ] && "$VENV/bin/python" -c "import z3, crosshair" 2>/dev/null; then
    exit 0
fi
LOCK="$PWD/.venv.lock"
i=0
while ! mkdir "$LOCK" 2>/dev/null; do
    i=$((i+1))
    if [ $i -gt 600 ]; then echo "setup: lock timeout" >&2; exit 2; fi
    sleep 0.5
done
trap 'rmdir "$LOCK" 2>/dev/null || true' EXIT
if [ -x "$VENV/bin/python" ] && "$VENV/bin/python" -c "import z3, crosshair" 2>/dev/null; then
    exit 0
fi
rm -rf "$VENV"
/venv/bin/python -m venv "$VENV"
SP=$("$VENV/bin/python" -c "import sysconfig; print(sysconfig.get_paths()['purelib'])")
printf "import site; site.addsitedir('/venv/lib/python3.12/site-packages')\n" > "$SP/_overlay.pth"
PIP_NO_INDEX=1 "$VENV/bin/python" -m pip install -q --no-index --find-links "$WHEELS" z3-solver crosshair-tool >/dev/null
"$VENV/bin/python" -c "import z3, crosshair; print('setup ok: z3', z3.get_version_string())"
