"""Second solver for the stand-alone lemma queries: the z3 solver state is written out as SMT-LIB2 and re-decided by
the cvc5 binary; a disagreement, an `(error` line or `unknown` makes the lemma inconclusive."""
from __future__ import annotations

import os
import shutil
import subprocess
import tempfile
import time


def cvc5_recheck(solver, logic=None, timeout_s=300):
    """-> dict(result='sat'|'unsat'|'unknown'|'error'|'unavailable', seconds, detail)"""
    exe = shutil.which("cvc5")
    if not exe:
        return {"result": "unavailable", "seconds": 0.0, "detail": "cvc5 binary not on PATH"}
    text = solver.to_smt2()
    if logic and "(set-logic" not in text:
        text = f"(set-logic {logic})\n" + text
    fd, path = tempfile.mkstemp(suffix=".smt2", prefix="lemma_")
    t0 = time.perf_counter()
    try:
        with os.fdopen(fd, "w") as f:
            f.write(text)
        try:
            p = subprocess.run([exe, f"--tlimit={int(timeout_s * 1000)}", path], capture_output=True, text=True,
                               timeout=timeout_s + 30)
        except subprocess.TimeoutExpired:
            return {"result": "unknown", "seconds": round(time.perf_counter() - t0, 2), "detail": "timeout"}
        out = (p.stdout + p.stderr).strip()
        dt = round(time.perf_counter() - t0, 2)
        if "(error" in out or "error" in out.lower() and "unsat" not in out and "sat" not in out.split():
            return {"result": "error", "seconds": dt, "detail": out[:300]}
        first = out.split()[0] if out.split() else "unknown"
        if first not in ("sat", "unsat"):
            first = "unknown"
        return {"result": first, "seconds": dt, "detail": out[:120]}
    finally:
        try:
            os.unlink(path)
        except OSError:
            pass
