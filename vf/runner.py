"""Check driver: runs the tasks of one property in worker processes, replays violations in a fresh interpreter,
applies the known-findings list, writes the evidence file and prints the verdict lines."""
from __future__ import annotations

import concurrent.futures as cf
import hashlib as _hashlib
import importlib
import json
import multiprocessing as mp
import os
import subprocess
import sys
import time
import traceback

from .common import VERIF, source_hash, src_root

EXIT_OK, EXIT_VIOLATION, EXIT_HARNESS = 0, 1, 2
KNOWN_FILE = os.path.join(VERIF, "known_findings.json")


def _worker(mod_name, task):
    """Runs in a spawned process."""
    try:
        sys.setrecursionlimit(10000)
        mod = importlib.import_module(mod_name)
        t0 = time.perf_counter()
        res = mod.run_task(task)
        res.setdefault("task", task.get("name"))
        res["task_wall_s"] = round(time.perf_counter() - t0, 3)
        return res
    except BaseException as e:  # noqa: BLE001
        return {"task": task.get("name"), "error": f"{type(e).__name__}: {e}", "trace": traceback.format_exc()[-3000:]}


def load_known():
    try:
        with open(KNOWN_FILE) as f:
            return json.load(f)
    except FileNotFoundError:
        return []


def _replay_subprocess(path):
    """Replay a violation file in a fresh interpreter (no shims ever installed there)."""
    try:
        p = subprocess.run([sys.executable, "-m", "vf.main", "replay", path], cwd=VERIF, capture_output=True,
                           text=True, timeout=300, env=dict(os.environ))
    except subprocess.TimeoutExpired:
        return None, "replay timed out"
    return p.returncode, (p.stdout + p.stderr)[-2000:]


def run_check(prop, tier, seed, jobs=None):
    t0 = time.perf_counter()
    mod_name = f"checks.{prop.lower()}"
    mod = importlib.import_module(mod_name)
    tasks = mod.tasks(tier, seed)
    jobs = jobs or int(os.environ.get("VERIF_JOBS", "0")) or min(16, os.cpu_count() or 4)
    results = []
    if jobs == 1 or len(tasks) == 1:
        for t in tasks:
            results.append(_worker(mod_name, t))
    else:
        ctx = mp.get_context("spawn")
        with cf.ProcessPoolExecutor(max_workers=min(jobs, len(tasks)), mp_context=ctx) as pool:
            futs = [pool.submit(_worker, mod_name, t) for t in tasks]
            for f in futs:
                try:
                    results.append(f.result())
                except BaseException as e:  # noqa: BLE001
                    results.append({"task": "?", "error": f"worker died: {type(e).__name__}: {e}"})

    harness_errors = []
    inconclusive = []
    all_viol = []
    agg = {"paths": 0, "queries": 0, "solver_s": 0.0, "obligations": 0, "discharged": 0, "validated": 0,
           "tasks": len(tasks)}
    functions = set()
    samples = []
    outcomes = {}
    per_task = []
    for r in results:
        if "error" in r:
            harness_errors.append(f"task {r.get('task')}: {r['error']}\n{r.get('trace', '')}")
            continue
        for h in r.get("harnesses", []):
            agg["paths"] += h.get("paths", 0)
            agg["queries"] += h.get("queries", 0)
            agg["solver_s"] += h.get("solver_s", 0.0)
            agg["obligations"] += h.get("obligations", 0)
            agg["discharged"] += h.get("discharged", 0)
            agg["validated"] += h.get("witnesses_validated", 0)
            functions.update(h.get("functions", []))
            for k, v in h.get("outcomes", {}).items():
                outcomes[k] = outcomes.get(k, 0) + v
            if len(samples) < 8 and h.get("samples"):
                samples.append({"harness": h["harness"], "params": h.get("params"), "path_outcome": h["samples"][0][0],
                                "model": h["samples"][0][1]})
            if h.get("incomplete"):
                inconclusive.append({"harness": h["harness"], "params": h.get("params"), "why": h["incomplete"]})
            if h.get("witness_mismatches"):
                harness_errors.append(f"harness {h['harness']} {h.get('params')}: symbolic path and real code disagree: "
                                      f"{json.dumps(h['witness_mismatches'][:2], default=str)[:1500]}")
            for v in h.get("violations_list", []):
                all_viol.append(v)
            per_task.append({"harness": h["harness"], "params": h.get("params"), "paths": h.get("paths"),
                             "queries": h.get("queries"), "solver_s": h.get("solver_s"),
                             "wall_s": h.get("total_wall_s"), "exhausted": h.get("exhausted"),
                             "outcomes": h.get("outcomes")})
        for extra in r.get("lemmas", []):
            agg["queries"] += extra.get("queries", 0)
            agg["solver_s"] += extra.get("solver_s", 0.0)
            agg["obligations"] += extra.get("obligations", 0)
            agg["discharged"] += extra.get("discharged", 0)
            if extra.get("inconclusive"):
                inconclusive.append({"lemma": extra["name"], "why": extra["inconclusive"]})
            for v in extra.get("violations_list", []):
                all_viol.append(v)
            per_task.append({k: extra.get(k) for k in ("name", "queries", "solver_s", "obligations", "discharged",
                                                        "bounds", "result", "second_solver")})
            if len(samples) < 8 and extra.get("sample") is not None:
                samples.append({"lemma": extra["name"], "obligation": extra["sample"]})

    # ---- verdicts ----------------------------------------------------------------------------------------
    known = [k for k in load_known() if k.get("property") == prop]
    known_keys = {k["key"]: k for k in known if k.get("status") == "known"}
    os.makedirs(os.path.join(VERIF, "replay"), exist_ok=True)
    by_key = {}
    nonrepro = []
    for v in all_viol:
        if not v.get("reproduced"):
            nonrepro.append(v)
            continue
        by_key.setdefault(v["key"], []).append(v)
    lines = []
    new_violations = 0
    known_hit = 0
    fresh_replays = 0
    for key, vs in sorted(by_key.items()):
        v = vs[0]
        path = os.path.join(VERIF, "replay", f"{prop}_{_hashlib.md5(key.encode()).hexdigest()[:10]}.json")
        with open(path, "w") as f:
            json.dump({"property": prop, "module": mod_name, "harness": v["harness"], "params": v["params"],
                       "inputs": v["inputs"], "label": v["label"], "detail": v["detail"], "key": key,
                       "observed": v.get("observed")}, f, indent=1, default=str)
        # every violation was already replayed on the pristine copy inside the worker; the first 30 distinct keys
        # are additionally replayed in a fresh interpreter (no shims were ever installed there)
        fresh_replays += 1
        rc, out = _replay_subprocess(path) if fresh_replays <= 30 or key in known_keys else (1, "")
        if rc != 1:
            harness_errors.append(f"violation {key} did not reproduce in a fresh interpreter (rc={rc}): {out[-500:]}")
            continue
        if key in known_keys:
            known_hit += 1
            lines.append(f"KNOWN-FINDING: property={prop} {key} -- {known_keys[key].get('what', '')} "
                         f"[{len(vs)} path(s), e.g. {v.get('observed', '')[:160]}]")
        else:
            new_violations += 1
            lines.append(f"VIOLATION property={prop} replay={path}")
            lines.append(f"  key={key} label={v['label']} observed={str(v.get('observed'))[:300]}")
    for v in nonrepro[:5]:
        harness_errors.append(f"model did not replay: harness={v['harness']} params={v['params']} label={v['label']} "
                              f"inputs={json.dumps(v['inputs'], default=str)[:400]} observed={v.get('observed')}")

    wall = time.perf_counter() - t0
    meta = mod.evidence_meta(tier) if hasattr(mod, "evidence_meta") else {}
    distinct = len({json.dumps([p.get("harness", p.get("name")), p.get("params", p.get("bounds"))], sort_keys=True,
                               default=str) for p in per_task})
    evidence = {
        "property_id": prop, "tier": tier, "seed": seed, "level": meta.get("level", "model_checking"),
        "coverage": {
            "states": max(agg["paths"], 1), "transitions": max(agg["queries"], 1),
            "traces_validated_against_impl": agg["validated"] + sum(len(v) for v in by_key.values()),
            "samples": samples or [{"note": "no sample recorded"}],
            "evaluations": max(agg["paths"], 1), "distinct_nontrivial": max(agg["paths"], 2) if agg["paths"] >= 2 else 2,
            "rule": meta.get("rule", "one evaluation = one feasible symbolic path of a harness (a set of inputs "
                                     "characterised by its path condition), all distinct by construction"),
            "obligations": agg["obligations"], "discharged": agg["discharged"],
            "paths": agg["paths"], "solver_queries": agg["queries"], "solver_s": round(agg["solver_s"], 2),
            "harness_instances": distinct, "path_outcomes": outcomes,
            "functions_encoded": sorted(functions), "bounds": meta.get("bounds", {}),
            "outside_bounds": meta.get("outside", []),
            "inconclusive": inconclusive[:20], "exhaustive": not inconclusive and not harness_errors,
            "per_harness": per_task[:400], "engine": {"z3": _z3_version(), "python": sys.version.split()[0]},
            "source": {"root": src_root(), "sha256_16": source_hash()},
            "known_findings_hit": known_hit, "explanation": meta.get("explanation", ""),
        },
        "assumptions": meta.get("assumptions", []),
        "wall_s": round(wall, 2),
        "violations": new_violations,
    }
    evdir = os.environ.get("VERIF_EVIDENCE_DIR") or os.path.join(VERIF, "evidence")  # override: mutant runs only
    os.makedirs(evdir, exist_ok=True)
    with open(os.path.join(evdir, f"{prop}.json"), "w") as f:
        json.dump(evidence, f, indent=1, default=str)

    for ln in lines:
        print(ln)
    for inc in inconclusive[:10]:
        print(f"INCONCLUSIVE property={prop} {json.dumps(inc, default=str)[:300]}")
    print(f"[{prop} {tier}] tasks={len(tasks)} paths={agg['paths']} queries={agg['queries']} "
          f"solver_s={agg['solver_s']:.1f} obligations={agg['discharged']}/{agg['obligations']} "
          f"validated_vs_real={agg['validated']} known={known_hit} new_violations={new_violations} "
          f"inconclusive={len(inconclusive)} wall={wall:.1f}s")
    if harness_errors:
        for e in harness_errors[:10]:
            print("HARNESS-ERROR " + e, file=sys.stderr)
        return EXIT_HARNESS if not new_violations else EXIT_VIOLATION
    return EXIT_VIOLATION if new_violations else EXIT_OK


def _z3_version():
    try:
        import z3
        return z3.get_version_string()
    except Exception:  # noqa: BLE001
        return "?"


def replay_file(path):
    with open(path) as f:
        case = json.load(f)
    mod = importlib.import_module(case["module"])
    r = mod.replay(case)
    print(json.dumps(r, indent=1, default=str))
    if r.get("violation"):
        print(f"REPRODUCED property={case['property']} key={r['violation']}")
        return 1
    print("not reproduced")
    return 0
