"""vcheck entry point:  vcheck <Cxx> [--tier quick|thorough] | vcheck replay <file> | vcheck selftest"""
from __future__ import annotations

import argparse
import os
import sys

from . import runner


def main(argv=None):
    argv = list(sys.argv[1:] if argv is None else argv)
    if argv and argv[0] == "replay":
        return runner.replay_file(argv[1])
    if argv and argv[0] == "selftest":
        from . import selftest
        return selftest.main(argv[1:])
    ap = argparse.ArgumentParser()
    ap.add_argument("prop")
    ap.add_argument("--tier", default=os.environ.get("VERIF_TIER", "quick"), choices=["quick", "thorough"])
    ap.add_argument("--jobs", type=int, default=None)
    a = ap.parse_args(argv)
    seed = int(os.environ.get("VERIF_SEED", "0") or 0)
    return runner.run_check(a.prop.upper(), a.tier, seed, a.jobs)


if __name__ == "__main__":
    sys.exit(main())
