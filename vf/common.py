"""Shared plumbing for the checks: loading the code under test (shimmed + pristine copy), exploring a harness,
cross-validating symbolic paths against concrete runs of the real code, collecting evidence."""
from __future__ import annotations

import hashlib
import importlib
import importlib.util
import json
import os
import sys
import time

VERIF = os.path.dirname(os.path.dirname(os.path.abspath(__file__)))
if VERIF not in sys.path:
    sys.path.insert(0, VERIF)

from symx import core, shims  # noqa: E402
from symx.core import Explorer  # noqa: E402


def src_root():
    return os.environ.get("GOODWE_SRC", "/repo")


_G = None
_R = None


class Mods:
    """Attribute access to the modules of one copy of goodwe: m.modbus, m.protocol, m.sensor, ..., m.pkg"""

    def __init__(self, prefix):
        self.prefix = prefix
        self.pkg = sys.modules[prefix]
        for sub in ("modbus", "protocol", "inverter", "sensor", "et", "es", "dt", "model", "exceptions", "const"):
            setattr(self, sub, importlib.import_module(f"{prefix}.{sub}"))


def shimmed() -> Mods:
    """The copy of goodwe that the symbolic paths execute (module name 'goodwe', shims installed)."""
    global _G
    if _G is None:
        shims.install(src_root())
        _G = Mods("goodwe")
        _G.orig_checksum = _G.modbus._modbus_checksum
        _G.orig_crc_table = _G.modbus._CRC_16_TABLE
        reset_mutable_class_state(_G, modules=ALL_MODULES)     # records the import-time content
    return _G


def real() -> Mods:
    """A second, pristine import of the same source files under the name 'goodwe_real' (no shims): used for
    replaying solver models and for cross-validating symbolic paths against the real code."""
    global _R
    if _R is None:
        path = os.path.join(src_root(), "goodwe")
        spec = importlib.util.spec_from_file_location("goodwe_real", os.path.join(path, "__init__.py"),
                                                      submodule_search_locations=[path])
        mod = importlib.util.module_from_spec(spec)
        sys.modules["goodwe_real"] = mod
        spec.loader.exec_module(mod)
        import logging
        logging.disable(logging.CRITICAL)
        _R = Mods("goodwe_real")
        reset_mutable_class_state(_R, modules=ALL_MODULES)
    return _R


_CLASS_STATE = {}
ALL_MODULES = ("protocol", "modbus", "sensor", "inverter", "et", "es", "dt", "model")


def reset_mutable_class_state(M, modules=("protocol", "modbus")):
    """Class- and module-level containers (dict/list/set) of the code under test are brought back to their import-time
    content, so that one symbolic path does not inherit what an earlier path (or an earlier replay) left there.
    State that leaks between objects *within* one path is what the history harnesses are about; leaking between
    paths would only make models non-replayable."""
    for name in modules:
        mod = getattr(M, name)
        owners = [mod] + [c for c in vars(mod).values() if isinstance(c, type) and c.__module__ == mod.__name__]
        for o in owners:
            for attr, val in list(vars(o).items()):
                if attr.startswith("__") or not isinstance(val, (dict, list, set)) or attr.startswith("_CRC") or \
                        (attr.isupper() and not attr.startswith("_")):      # public constants (label tables) are never mutated
                    continue
                key = (id(o), attr)
                if key not in _CLASS_STATE:
                    _CLASS_STATE[key] = (val, type(val)(val))
                    continue
                obj, init = _CLASS_STATE[key]
                if obj is val:
                    if isinstance(val, dict):
                        val.clear(); val.update(init)
                    elif isinstance(val, list):
                        val[:] = init
                    else:
                        val.clear(); val |= init


def source_hash():
    h = hashlib.sha256()
    root = os.path.join(src_root(), "goodwe")
    for fn in sorted(os.listdir(root)):
        if fn.endswith(".py"):
            h.update(fn.encode())
            with open(os.path.join(root, fn), "rb") as f:
                h.update(f.read())
    return h.hexdigest()[:16]


# ---------------------------------------------------------------------------------------------------------------
# function coverage of the code under test (first path of each harness)
# ---------------------------------------------------------------------------------------------------------------
class FuncTrace:
    def __init__(self):
        self.names = set()
        self.root = os.path.realpath(os.path.join(src_root(), "goodwe"))

    def __enter__(self):
        def prof(frame, event, arg):
            if event == "call":
                co = frame.f_code
                fn = co.co_filename
                if fn.startswith(self.root):
                    self.names.add(f"{os.path.basename(fn)[:-3]}.{co.co_qualname}")
        sys.setprofile(prof)
        return self

    def __exit__(self, *a):
        sys.setprofile(None)


# ---------------------------------------------------------------------------------------------------------------
# Harness exploration
# ---------------------------------------------------------------------------------------------------------------
class Harness:
    """One symbolic harness.

    symbolic(ex) is called once per path: it creates the symbolic inputs, runs the real (shimmed) code, states its
    obligations with ex.check()/ex.fail() and returns a short *outcome* string.
    concrete(inputs) runs the pristine code on plain Python values and returns a dict with at least
    {'outcome': str, 'violation': None | str (the finding key), 'observed': str}.
    """
    name = "harness"
    params: dict = {}

    def symbolic(self, ex: Explorer) -> str:
        raise NotImplementedError

    def concrete(self, inputs: dict) -> dict:
        raise NotImplementedError


def explore(h: Harness, max_paths=200000, max_seconds=None, witnesses_per_outcome=2, trace=True,
            query_timeout_ms=20000):
    """Explore all paths of a harness; cross-validate a few paths per outcome against the pristine code; replay
    every violation.  Returns a JSON-able result dict."""
    ex = Explorer(max_paths=max_paths, max_seconds=max_seconds, name=h.name, query_timeout_ms=query_timeout_ms)
    witnesses = []  # (outcome, inputs)
    per_outcome = {}
    funcs = set()
    first = [True]

    def one_path():
        if first[0] and trace:
            first[0] = False
            with FuncTrace() as ft:
                try:
                    out = h.symbolic(ex)
                finally:
                    funcs.update(ft.names)
        else:
            out = h.symbolic(ex)
        ex.note(out)
        k = per_outcome.get(out, 0)
        if k < witnesses_per_outcome:
            per_outcome[out] = k + 1
            try:
                witnesses.append((out, ex.model_inputs()))
            except (core.PathDead, core.Inconclusive):
                pass

    t0 = time.perf_counter()
    ex.run(one_path)
    # cross-validation of symbolic paths against the real code
    validated = 0
    mismatches = []
    uf_skipped = 0
    for out, inputs in witnesses:
        if any(str(k).startswith("crc!") for k in inputs):
            # the path rests on a value of the uninterpreted checksum (symbolic garbage that "happens" to carry a valid
            # CRC): no concrete byte string reproduces the solver's choice, so the path cannot be cross-validated
            uf_skipped += 1
            continue
        try:
            r = h.concrete(inputs)
        except Exception as e:  # noqa: BLE001
            mismatches.append({"outcome": out, "inputs": inputs, "error": f"{type(e).__name__}: {e}"})
            continue
        if r.get("outcome") != out:
            mismatches.append({"outcome": out, "inputs": inputs, "concrete_outcome": r.get("outcome"),
                               "observed": r.get("observed")})
        else:
            validated += 1
    # replay of violations
    viols = []
    spurious = 0
    for v in ex.violations:
        r = None
        try:
            r = h.concrete(v["inputs"])
            rep = {"reproduced": bool(r.get("violation")), "key": r.get("violation"), "observed": r.get("observed"),
                   "outcome": r.get("outcome")}
        except Exception as e:  # noqa: BLE001
            rep = {"reproduced": False, "key": None, "observed": f"replay crashed: {type(e).__name__}: {e}"}
        if rep.get("reproduced") is False and r is not None and (r.get("spurious") or any(str(k).startswith("crc!") for k in v["inputs"])):
            # rests on an uninterpreted checksum value that no concrete byte string realises (frames with a genuinely
            # valid checksum are the 'answer'/'exception' kinds of the scripts)
            spurious += 1
            continue
        viols.append({"harness": h.name, "params": h.params, "label": v["label"], "detail": v["detail"],
                      "inputs": v["inputs"], "notes": v.get("notes", []), **rep})
    st = ex.stats()
    st.update({"harness": h.name, "params": h.params, "violations_list": viols, "witnesses_validated": validated,
               "witness_mismatches": mismatches[:5], "witnesses_on_uninterpreted_crc": uf_skipped, "functions": sorted(funcs), "samples": witnesses[:3], "spurious_models": spurious,
               "total_wall_s": round(time.perf_counter() - t0, 3)})
    return st


def jsonable(x):
    try:
        json.dumps(x)
        return x
    except TypeError:
        return repr(x)
