"""./vcheck selftest — translator validation on concrete data: the repository's recorded responses (tests/sample) and
the vectors of tests/test_modbus.py are pushed through the shimmed copy of goodwe (proxies/shims active, all inputs
concrete) and through the pristine copy; results must be identical.  (The symbolic paths themselves are
cross-validated against the pristine copy inside every check; this covers the shims on realistic full-size data.)"""
from __future__ import annotations

import glob
import os
import sys

from .common import shimmed, real, src_root


def _outcome(fn):
    try:
        return ("ok", fn())
    except Exception as e:  # noqa: BLE001
        return ("exc", type(e).__name__, tuple(str(a) for a in getattr(e, "args", ()))[:1])


def _norm(v):
    if isinstance(v, dict):
        return {k: _norm(x) for k, x in v.items()}
    if isinstance(v, float) and v != v:
        return "nan"
    if hasattr(v, "start_h"):
        return str(v)
    return v


def main(argv):
    G, R = shimmed(), real()
    G.modbus._modbus_checksum = G.orig_checksum
    G.sensor.decode_bitmap = getattr(G, "orig_bitmap", G.sensor.decode_bitmap)
    files = sorted(glob.glob(os.path.join(src_root(), "tests", "sample", "*", "*.hex")))
    n = bad = 0
    for path in files:
        try:
            data = bytes.fromhex(open(path).read().strip())
        except ValueError:
            continue
        # validators with the parameters a full-length read answer of this size implies
        for name, count in (("validate_modbus_rtu_response", (len(data) - 7) // 2), ("validate_modbus_tcp_response", (len(data) - 9) // 2)):
            for cmd in (3, 6):
                a = _outcome(lambda: getattr(G.modbus, name)(data, cmd, 35100, count))
                b = _outcome(lambda: getattr(R.modbus, name)(data, cmd, 35100, count))
                n += 1
                if a != b:
                    bad += 1
                    print("MISMATCH", name, os.path.basename(path), a, b)
        for rt in ("0182", "0186", "0189", ""):
            a = _outcome(lambda: G.protocol.Aa55ProtocolCommand._validate_aa55_response(data, rt))
            b = _outcome(lambda: R.protocol.Aa55ProtocolCommand._validate_aa55_response(data, rt))
            n += 1
            if a != b:
                bad += 1
                print("MISMATCH aa55", os.path.basename(path), a, b)
        # decoding: every class-level sensor table against this response (as an answer to a read at each table's base)
        for fam, Mg, Mr in (("et", G.et.ET, R.et.ET), ("dt", G.dt.DT, R.dt.DT), ("es", G.es.ES, R.es.ES)):
            for attr, tg in vars(Mg).items():
                tr = vars(Mr).get(attr)
                if not (isinstance(tg, tuple) and tg and all(hasattr(x, "id_") for x in tg)):
                    continue
                first = min((s.offset for s in tg if s.offset), default=0)
                for mods, tbl, store in ((G, tg, "g"), (R, tr, "r")):
                    P = mods.protocol
                    cmd = P.ModbusRtuReadCommand(0xf7, first, max(1, (len(data) - 7) // 2)) if fam != "es" else \
                        P.Aa55ProtocolCommand("010600", "0186")
                    resp = P.ProtocolResponse(data, cmd)
                    out = _outcome(lambda: _norm(mods.inverter.Inverter._map_response(resp, tbl)))
                    if store == "g":
                        ga = out
                    else:
                        ra = out
                n += 1
                if repr(ga) != repr(ra):
                    bad += 1
                    print("MISMATCH table", fam, attr, os.path.basename(path), repr(ga)[:200], repr(ra)[:200])
    # request builders on the vectors of tests/test_modbus.py
    for args in ((0x11, 0x3, 0x006b, 0x0003), (0xf7, 0x6, 0xb798, -1), (0xf7, 0x3, 0x88b8, 0x21), (0x7f, 0x6, 40328, 32767)):
        for fn in ("create_modbus_rtu_request", "create_modbus_tcp_request"):
            a, b = _outcome(lambda: getattr(G.modbus, fn)(*args)), _outcome(lambda: getattr(R.modbus, fn)(*args))
            n += 1
            if a != b:
                bad += 1
                print("MISMATCH", fn, args, a, b)
    print(f"selftest: {n} comparisons over {len(files)} recorded responses, {bad} mismatches")
    return 0 if bad == 0 and n > 0 else 2


if __name__ == "__main__":
    sys.exit(main(sys.argv[1:]))
